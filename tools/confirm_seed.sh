#!/bin/bash
# usage: confirm_seed.sh <out-dir> <k> <prop>
# Confirms a sub-agent's seeded change in a fresh scratch worktree of /repo (outside /repo and
# /verif): applies, builds, the full suite passes, the demo fails with it and passes without it.
# On success copies patch/demo/meta to /verif/seeded/<prop>-<k>/ . Removes the worktree afterwards.
set -u
out="$1"; k="$2"; prop="$3"; sid="${4:-$2}"
wt="/tmp/confirm-$prop-$k-$$"
export CARGO_NET_OFFLINE=true
log="/tmp/confirm-$prop-$k.log"
: > "$log"
git -C /repo worktree add -q --detach "$wt" HEAD >>"$log" 2>&1 || { echo "$prop-$k: worktree failed"; exit 2; }
cleanup() { git -C /repo worktree remove --force "$wt" >/dev/null 2>&1; rm -rf "$wt"; }
trap cleanup EXIT
cd "$wt"
# demo on the clean tree
( cd "$out" && bash "demo$k.sh" "$wt" ) >>"$log" 2>&1; clean_rc=$?
git -C "$wt" status --porcelain | grep -v '^??' >>"$log"
git apply "$out/patch$k.diff" >>"$log" 2>&1 || { echo "$prop-$k: patch does not apply"; exit 1; }
suite=$(cargo test --workspace --no-fail-fast --offline 2>&1 | grep -E "^test result" )
echo "$suite" >>"$log"
passed=$(echo "$suite" | sed -E 's/.* ([0-9]+) passed.*/\1/' | paste -sd+ | bc)
failed=$(echo "$suite" | sed -E 's/.* ([0-9]+) failed.*/\1/' | paste -sd+ | bc)
( cd "$out" && bash "demo$k.sh" "$wt" ) >>"$log" 2>&1; patched_rc=$?
echo "$prop-$k: suite passed=$passed failed=$failed demo_clean=$clean_rc demo_patched=$patched_rc"
if [ "$passed" = "3212" ] && [ "$failed" = "0" ] && [ "$clean_rc" = "0" ] && [ "$patched_rc" != "0" ]; then
  d="/verif/seeded/$prop-$sid"; mkdir -p "$d"
  cp "$out/patch$k.diff" "$d/patch.diff"
  cp "$out/demo$k.sh" "$d/demo.sh"
  # supporting files of the demo
  for f in "$out"/*; do case "$(basename "$f")" in patch*|meta*|demo[0-9].sh|suite*.log) ;; *) cp -r "$f" "$d/";; esac; done
  cp "$out/meta$k.json" "$d/agent_meta.json"
  python3 - "$d" "$prop" "$k" "$passed" "$clean_rc" "$patched_rc" <<'PY'
import json,sys
d,prop,k,passed,c,p=sys.argv[1:]
am=json.load(open(d+'/agent_meta.json'))
meta={"property":prop,"summary":am.get("summary",""),"needs":am.get("needs",""),"files_touched":am.get("files_touched",[]),
      "confirmed":{"how":"tools/confirm_seed.sh in a fresh scratch worktree of /repo HEAD: git apply, cargo test --workspace --no-fail-fast --offline, demo.sh on clean and patched tree",
                   "suite_passed":int(passed),"suite_failed":0,"demo_exit_clean":int(c),"demo_exit_patched":int(p)},
      "demo":"bash demo.sh <checkout> (exit 0 = property holds on the demo case)"}
json.dump(meta,open(d+'/meta.json','w'),indent=1)
PY
  rm -f "$d/agent_meta.json"
  echo "$prop-$k: CONFIRMED -> $d"
else
  echo "$prop-$k: NOT confirmed (see $log)"
fi
