#!/usr/bin/env python3
"""Writes /verif/MANIFEST.json from the table below (kept in one place so it stays valid)."""
import json, subprocess

REPO_HOOK_COMMITS = ["48f6b6e"]

CHECKS = {
 "C01": ("random + bounded-exhaustive generation against a character-sequence round-trip oracle",
         "Exploration: every 3-lexeme sequence over a 109-lexeme alphabet, every pair x separators x configurations, and proptest-generated soup / arbitrary UTF-8 / mutated seeds x configurations; oracle = non-blank character sequences of input and output agree up to the two permitted case normalisations. Right level because the claim is universal over inputs x settings and has an exact, cheap oracle; absence is not established.",
         "Trusts the harness's own definition of blank (from the statement) and of keyword word (the 122-keyword table)."),
 "C04": ("bounded-exhaustive + random generation; oracle = call returns (process-isolated workers with watchdog), work oracle on conditional passes",
         "Exploration with process isolation: exhaustive 3-lexeme sequences (4 in thorough), pairs x configurations in a build with debug assertions, random soup/text/mutated seeds/directive-heavy/nested/long inputs x configurations x cursor lists. A worker that aborts or stops advancing is re-run alone in a fresh process (60 s) before a violation is reported; conditional-pass count must be linear (hook).",
         "Hang oracle only for inputs <= 256 bytes; nesting deeper than 500 excluded by construction; absence of hangs/aborts is not established beyond the explored inputs."),
}

NOT_YET = {}

def main():
    checks = []
    for pid, (technique, level_text, note) in sorted(CHECKS.items()):
        checks.append({
            "property_id": pid,
            "quick_cmd": f"./run {pid} quick",
            "thorough_cmd": f"./run {pid} thorough",
            "evidence_file": f"/verif/evidence/{pid}.json",
            "replay_cmd_template": "./run replay {path}",
            "engine": "vf",
            "level_claimed": {"category": "exploration", "text": level_text, "design_ref": f"DESIGN.md §5 {pid}"},
            "level_note": note,
            "technique": technique,
        })
    allp = [json.loads(l)["id"] for l in open("/verif/properties.jsonl")]
    na = []
    for pid in allp:
        if pid not in CHECKS:
            na.append({"property_id": pid, "reason": NOT_YET.get(pid, "check not built yet in this session (property-based check planned, see DESIGN.md §5); no claim is made")})
    m = {
        "version": 1,
        "setup_cmd": "./run build",
        "hooks": {
            "guard": "cargo feature verif_hooks (crates pasfmt-core, pasfmt-orchestrator, pasfmt)",
            "enable": "the harness depends on /repo's crates by path with features=[\"verif_hooks\"]; the binary is built with `cargo build --release -p pasfmt --features verif_hooks --target-dir /verif/target/repo-bin`",
            "baseline_off_cmd": "cd /repo && cargo test --workspace --no-fail-fast --offline",
            "source_commits": REPO_HOOK_COMMITS,
            "add_only": True,
        },
        "engines": [
            {"name": "vf", "path": "/verif/harness", "serves_properties": sorted(CHECKS.keys()),
             "kind_free_text": "Rust harness: choice-tape generators driven by proptest (generation + shrinking), bounded-exhaustive enumerators, process-isolated workers with watchdog, replay files, known-findings matcher"},
        ],
        "checks": checks,
        "not_applicable": na,
        "notes": "All checks: ./run <id> <tier>; VERIF_SEED selects the proptest seed (default 1). Exit 2 = infrastructure trouble (never a violation).",
    }
    json.dump(m, open("/verif/MANIFEST.json", "w"), indent=1)
    print("checks:", len(checks), "not_applicable:", len(na))

main()
