#!/usr/bin/env python3
"""Writes /verif/MANIFEST.json from the table below (kept in one place so it stays valid)."""
import json, subprocess

REPO_HOOK_COMMITS = ["48f6b6e", "4c5123b"]

CHECKS = {
 "C01": ("random + bounded-exhaustive generation against a character-sequence round-trip oracle",
         "Exploration: every 3-lexeme sequence over a 109-lexeme alphabet, every pair x separators x configurations, and proptest-generated soup / arbitrary UTF-8 / mutated seeds x configurations; oracle = non-blank character sequences of input and output agree up to the two permitted case normalisations. Right level because the claim is universal over inputs x settings and has an exact, cheap oracle; absence is not established.",
         "Trusts the harness's own definition of blank (from the statement) and of keyword word (the 122-keyword table)."),
 "C04": ("bounded-exhaustive + random generation; oracle = call returns (process-isolated workers with watchdog), work oracle on conditional passes",
         "Exploration with process isolation: exhaustive 3-lexeme sequences (4 in thorough), pairs x configurations in a build with debug assertions, random soup/text/mutated seeds/directive-heavy/nested/long inputs x configurations x cursor lists. A worker that aborts or stops advancing is re-run alone in a fresh process (60 s) before a violation is reported; conditional-pass count must be linear (hook).",
         "Hang oracle for inputs <= 256 bytes and for the single-construct nests of the scaling families (depth 40, <= 1600 bytes); nesting deeper than 500 excluded by construction; absence of hangs/aborts is not established beyond the explored inputs."),
 "C02": ("grammar-based random generation (proptest tapes) + layout/comment transformations; re-scan round-trip oracle against an independent reference scanner and the lexer",
         "Exploration: grammar-derived programs in random layouts with comments and keyword-case variation, plus repository seeds, x configurations; the output must scan (independent scanner and DelphiLexer) to the same kinds and texts up to the documented normalisations.",
         "Well-formedness is by construction from the harness grammar (DESIGN Appendix A); breadth of the grammar is reported in the evidence class histogram."),
 "C03": ("grammar-based random generation; fixpoint oracle f(f(x)) == f(x), f^3 == f^2",
         "Exploration: as C02 plus programs with multi-line strings, narrow widths emphasised; byte equality of successive passes.",
         "Also through the binary: write, --mode=check, second in-place run."),
 "C05": ("grammar-based random generation with structural annotations; validity predicate over the output (relative indentation of marked tokens)",
         "Exploration: the generator records every statement/member start, closer and control-flow begin with the token that starts the opener's line; the output must place each on its own line at the stated relative depth, for all widths, both begin styles, tabs and spaces.",
         "Anonymous-routine bodies and single-statement bodies are not asserted (not in the statement)."),
 "C06": ("metamorphic relation between two generated layouts of one token vector",
         "Exploration: pairs of renderings that differ only in free gaps (blank amounts, indentation, space <-> single line break, zero width where lexemes may touch, size of blank-line groups) with comment gaps and blank-line grouping fixed; format(r1) == format(r2).",
         "Both renderings must scan back to the same lexemes (checked); stream toggled keeps one verbatim region identical in both renderings; asm instruction lines keep their gaps."),
 "C08": ("bounded-exhaustive + random generation; validity predicate over output whitespace",
         "Exploration: every 3-lexeme sequence with non-canonical separators, pairs x separators x configurations, random soup/text/mutated seeds and grammar-derived programs; the output (scanned by the independent scanner, verbatim regions / asm / multi-line tokens skipped) must satisfy the five whitespace clauses.",
         "For arbitrary text the check is skipped when the output does not scan to the same token kinds as the input or contains toggle comments (regions cannot be located soundly); several genuine deviations are listed as known findings."),
 "C13": ("exhaustive grid + random generation; differential against an independent reference scanner and between the AVX2 / portable routines (hook), losslessness round trip",
         "Exploration: full product grid of word classes x lengths x pads x suffix lengths x delimiters (5.1 M cases), character sweep, random text; losslessness, constructed extents, equality with the reference scanner, and agreement of the three identifier routines with a 3-line model.",
         "The lexical rules are those of DESIGN Appendix B."),
 "C14": ("bounded-exhaustive + random + grammar-based generation; invariant over the parser's logical lines",
         "Exploration: every 3-lexeme sequence, pairs x separators, random arbitrary inputs (ordering/coverage clauses) and grammar-derived programs (parent and end-of-file clauses).",
         "Well-formed = derived from the harness grammar."),
 "C15": ("random generation of inputs x cursor lists; metamorphic (with/without cursors) + position oracle via token correspondence",
         "Exploration: arbitrary inputs, seeds, 65 535-byte boundary lines and grammar-derived programs x configurations x cursor lists (token starts/interiors/ends, blanks, end, past the end).",
         "Clause 3 is asserted only when input and output scan to the same token kinds; nothing is asserted inside blanks beyond bounds."),
 "C07": ("grammar-based generation with inserted verbatim regions / asm bodies; byte-equality oracle through the non-blank position map",
         "Exploration: programs with 1-2 verbatim regions at arbitrary token gaps (many off/on spellings, open regions, look-alike comments that must not toggle) and asm bodies with irregular spacing, wild layouts x configurations; every region and asm body must be byte-identical in the output and code outside must still be formatted.",
         "Regions are located on the input with the harness's own recogniser; relies on C01's equality (checked first) for the position map."),
 "C09": ("grammar-based + arbitrary generation; metamorphic relations between lf/crlf configurations and LF/CRLF/mixed renderings; validity predicate on emitted line breaks",
         "Exploration: (a) every emitted line break is the configured one, (b) format_crlf == format_lf with terminators substituted, (c) CRLF / mixed input renderings give the LF rendering's output when no line-spanning verbatim token is present.",
         "x_CRLF / x_mixed derived by substitution of every line break of the LF rendering."),
 "C10": ("grammar-based generation; metamorphic relation between tabs/spaces and continuation_indents 0/1/k renderings",
         "Exploration at unconstrained width: levels and continuations are read off the tab renderings with continuation_indents 0 and 1; the k rendering and the spaces rendering must be exactly levels/continuations times the unit (with the statement's saturation at 255), identical text after the indentation.",
         "Lines inside multi-line comments are verbatim and only compared for equality."),
 "C11": ("grammar-based generation (ASCII-only); metamorphic relations between two wrap_column values",
         "Exploration: pairs W1 < W2; identity when the wide result fits the narrow column, line-count monotonicity, fit monotonicity.",
         "Asserted strictly on a simple-expression domain (incl. through the binary and on statements with multi-line literals); on general programs the heuristic search violates all three clauses about once in 10 000 cases (finding)."),
 "C12": ("generated multi-line literals in generated positions; value round-trip with an own literal parser",
         "Exploration: literal shapes (quote runs, endings, indentation kinds, blank/short/over-indented lines, invalid and ambiguous variants) x positions x layouts x configurations; value, terminators and indentation clauses per literal.",
         "Ambiguous whitespace-only lines: only value preservation of regular lines is asserted."),
 "C16": ("generated file-system scenarios run through the real binary; differential between modes and against the library model",
         "Exploration: contents (generated programs, arbitrary text, large flat files), BOM, siblings, decoys, undecodable and missing files x path forms x modes x configurations; exact byte, exit-status and mtime oracles.",
         "UTF-8 and windows-1252 here (C17 covers encodings)."),
 "C17": ("generated texts per encoding run through the real binary; round-trip against independent encoders",
         "Exploration: 45 encoding labels x BOMs x representable texts x file/stdin; bytes written == BOM + encode(format(decode)); malformed input rejected and untouched.",
         "UTF-8/16 encoders hand-written; legacy encodings use encoding_rs as the reference encoder."),
 "C18": ("generated batches run through the real binary under sampled schedules (threads, order, seeded jitter hook); differential batch vs alone",
         "Exploration: multisets of files x thread counts x order x jitter x failing subsets x files/stdout mode; every file equals its formatted-alone result, failing files untouched, exit status iff failure, stdout records complete.",
         "Schedules are sampled, not enumerated."),
 "C19": ("generated configuration specifications (file depth, decoys, --config-file, -C splits, invalid variants) run through the real binary; differential against the canonical all -C specification and a precedence model",
         "Exploration: nearest-file discovery through up to 6 ancestor levels with decoys, explicit files, repeated -C, quoted/unquoted values, invalid specifications; output must be byte-identical to the canonical specification of the modelled effective configuration; invalid ones rejected before any write.",
         "An ill-typed file value overridden by -C is not asserted (not stated)."),
}

NOT_YET = {}

def main():
    checks = []
    kf = json.load(open("/verif/known_findings.json"))
    for pid, (technique, level_text, note) in sorted(CHECKS.items()):
        open_ids = sorted(e["id"] for e in kf if e["property"] == pid and e["status"] == "open")
        if open_ids:
            note = note + " Open findings (known_findings.json), excluded by signature and counted in the evidence: " + ", ".join(open_ids) + "."
        checks.append({
            "property_id": pid,
            "quick_cmd": f"./run {pid} quick",
            "thorough_cmd": f"./run {pid} thorough",
            "evidence_file": f"/verif/evidence/{pid}.json",
            "replay_cmd_template": "./run replay {path}",
            "engine": "vf",
            "level_claimed": {"category": "exploration", "text": level_text, "design_ref": f"DESIGN.md §5 {pid}"},
            "level_note": note,
            "technique": technique,
        })
    allp = [json.loads(l)["id"] for l in open("/verif/properties.jsonl")]
    na = []
    for pid in allp:
        if pid not in CHECKS:
            na.append({"property_id": pid, "reason": NOT_YET.get(pid, "check not built yet in this session (property-based check planned, see DESIGN.md §5); no claim is made")})
    m = {
        "version": 1,
        "setup_cmd": "./run build",
        "hooks": {
            "guard": "cargo feature verif_hooks (crates pasfmt-core, pasfmt-orchestrator, pasfmt)",
            "enable": "the harness depends on /repo's crates by path with features=[\"verif_hooks\"]; the binary is built with `cargo build --release -p pasfmt --features verif_hooks --target-dir /verif/target/repo-bin`",
            "baseline_off_cmd": "cd /repo && cargo test --workspace --no-fail-fast --offline",
            "source_commits": REPO_HOOK_COMMITS,
            "add_only": True,
        },
        "engines": [
            {"name": "vf", "path": "/verif/harness", "serves_properties": sorted(CHECKS.keys()),
             "kind_free_text": "Rust harness: choice-tape generators driven by proptest (generation + shrinking), bounded-exhaustive enumerators, process-isolated workers with watchdog, replay files, known-findings matcher"},
        ],
        "checks": checks,
        "not_applicable": na,
        "notes": "All checks: ./run <id> <tier>; VERIF_SEED selects the proptest seed (default 1). Exit 2 = infrastructure trouble (never a violation).",
    }
    json.dump(m, open("/verif/MANIFEST.json", "w"), indent=1)
    print("checks:", len(checks), "not_applicable:", len(na))

main()
