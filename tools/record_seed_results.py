#!/usr/bin/env python3
"""Helper used while building: fold seedlab logs into seeded/<id>/meta.json.
usage: record_seed_results.py <seedlab-log>...
A log line looks like `== C02-3 vs C02 quick: exit 1 in 67s`, followed by the first VIOLATION
lines. Every run is appended to `checked_against` (in order); `detected` is true when the
latest run of any check exited 1 with a VIOLATION line."""
import json, os, re, sys

runs = {}
for log in sys.argv[1:]:
    cur = None
    for line in open(log, errors="replace"):
        m = re.match(r"== (\S+) vs (\S+) (\S+): exit (\d+) in (\d+)s", line)
        if m:
            seed, prop, tier, rc, secs = m.groups()
            cur = {"check": f"{prop} {tier}", "exit": int(rc), "seconds": int(secs)}
            runs.setdefault(seed, []).append(cur)
        elif cur is not None and line.startswith("  [") and "first_violation" not in cur:
            cur["first_violation"] = line.strip()[:300]

for seed, rs in sorted(runs.items()):
    p = f"/verif/seeded/{seed}/meta.json"
    if not os.path.exists(p):
        print("no meta for", seed)
        continue
    meta = json.load(open(p))
    have = meta.setdefault("checked_against", [])
    for r in rs:
        if r not in have:
            have.append(r)
    latest = {}
    for r in have:
        latest[r["check"]] = r
    meta["detected"] = any(r["exit"] == 1 for r in latest.values())
    meta["detected_by"] = sorted(c for c, r in latest.items() if r["exit"] == 1)
    json.dump(meta, open(p, "w"), indent=1, ensure_ascii=False)
    print(seed, "detected" if meta["detected"] else "MISSED", meta["detected_by"])
