#!/bin/bash
# usage: seedlab.sh <seed-dir-name> <Cnn> [tier]      e.g. seedlab.sh C01-1 C01
# Runs one of my checks against a seeded change without touching the real /repo or /verif:
# inside a private mount namespace a scratch worktree of /repo (with the patch applied) is
# bind-mounted over /repo and a copy of /verif (own target directory) over /verif.
set -u
seed="$1"; prop="$2"; tier="${3:-quick}"
LAB=/tmp/lab
mkdir -p $LAB
exec 8>$LAB/lock; flock 8
if [ ! -d $LAB/repo ]; then git -C /repo worktree add -q --detach $LAB/repo HEAD || exit 2; fi
git -C $LAB/repo checkout -q -- . ; git -C $LAB/repo checkout -q --detach "$(git -C /repo rev-parse HEAD)" || exit 2
mkdir -p $LAB/verif
rsync -a --delete --exclude target --exclude out --exclude .git /verif/ $LAB/verif/
mkdir -p $LAB/verif/out
patch="/verif/seeded/$seed/patch.diff"
git -C $LAB/repo apply "$patch" || { echo "== $seed vs $prop: patch does not apply"; exit 2; }
start=$(date +%s)
unshare -m bash -c "mount --bind $LAB/repo /repo && mount --bind $LAB/verif /verif && cd /verif && VERIF_SEED=\${VERIF_SEED:-1} ./run $prop $tier" > $LAB/last.log 2>&1
rc=$?
end=$(date +%s)
git -C $LAB/repo checkout -q -- .
echo "== $seed vs $prop $tier: exit $rc in $((end-start))s"
grep -E "VIOLATION|ERROR|^  \[" $LAB/last.log | head -4 | cut -c1-300
exit $rc
