#!/bin/bash
# usage: try_seed.sh <patch.diff> <Cnn> [tier]   -- apply a seeded change to /repo, run the check, undo.
set -u
patch="$1"; prop="$2"; tier="${3:-quick}"
cd /repo || exit 2
if [ -n "$(git status --porcelain)" ]; then echo "repo not clean"; exit 2; fi
git apply "$patch" || { echo "patch does not apply"; exit 2; }
cd /verif
start=$(date +%s)
./run "$prop" "$tier" > /tmp/try_seed.$$.log 2>&1
rc=$?
end=$(date +%s)
git -C /repo checkout -- .
echo "== $(basename $(dirname $patch))/$(basename $patch) vs $prop $tier: exit $rc in $((end-start))s"
grep -E "VIOLATION|ERROR|^  \[" /tmp/try_seed.$$.log | head -6
rm -f /tmp/try_seed.$$.log
exit $rc
