#!/usr/bin/env python3
"""Helper used while building: add or replace an entry of known_findings.json atomically
(checks may be reading the file). usage: kf_add.py '<json object>' [replay-to-copy-as-witness [extra-fact ...]]"""
import json, os, shutil, sys
e = json.loads(sys.argv[1])
if len(sys.argv) > 2:
    dst = "/verif/" + e["witness"]
    shutil.copy(sys.argv[2], dst)
    r = json.load(open(dst))
    for f in sys.argv[3:]:
        if f not in r["facts"]:
            r["facts"].append(f)
    json.dump(r, open(dst + ".tmp", "w"), indent=1, ensure_ascii=False)
    os.replace(dst + ".tmp", dst)
p = "/verif/known_findings.json"
kf = [x for x in json.load(open(p)) if x["id"] != e["id"]]
kf.append(e)
json.dump(kf, open(p + ".tmp", "w"), indent=1)
os.replace(p + ".tmp", p)
print("ok", e["id"])
