#!/usr/bin/env python3
"""Snapshot the repository's data-test inputs/outputs into /verif/corpus/seeds.jsonl (DESIGN §3.6).
Run once at implementation time; the result is committed. Plain text, one JSON object per line."""
import json, os, re, sys
SRC = '/repo/core/datatests/generated'
SEP = '!#################################!'
out = []

def trim_string(s):
    lines = s.split('\n')
    if not lines or lines[0] != '':
        return s
    body = s.splitlines()
    first = next((l for l in body if l.strip()), body[0] if body else '')
    lead = first[:len(first) - len(first.lstrip())]
    res = []
    for l in body[1:]:
        if l.startswith(lead):
            res.append(l[len(lead):])
        elif l.strip() == '':
            res.append(l.strip())
        else:
            return None
    return '\n'.join(res)

for root, _, files in sorted(os.walk(SRC)):
    for f in sorted(files):
        p = os.path.join(root, f)
        rel = os.path.relpath(p, SRC)
        s = open(p, encoding='utf-8').read()
        if rel.startswith('optimising_line_formatter'):
            if SEP in s:
                i, o = s.split(SEP, 1)
            else:
                i, o = s, None
            i = trim_string(i)
            o = trim_string(o) if o is not None else None
            if i is None:
                continue
            m = re.search(r'// wrap_column=(\d+)', i)
            rec = {'name': rel, 'kind': 'olf', 'input': i}
            if o is not None:
                rec['output'] = o
            if m:
                rec['wrap_column'] = int(m.group(1))
            out.append(rec)
        else:
            # logical line DSL: "<meta>|<code>", ends at '---'; {N} marker comments removed
            lines = []
            for l in s.splitlines():
                t = l.strip()
                if not t:
                    continue
                if t == '---':
                    break
                if '|' in t:
                    meta, code = t.split('|', 1)
                    if re.fullmatch(r'[\s_0-9,^:]*', meta):
                        lines.append(code)
                        continue
                lines.append(t)
            code = '\n'.join(lines)
            code = re.sub(r'\{\d+\}', '', code)
            out.append({'name': rel, 'kind': 'llp', 'input': code})

for extra in ['web/demo/public/examples/simple.pas']:
    p = os.path.join('/repo', extra)
    if os.path.exists(p):
        out.append({'name': extra, 'kind': 'file', 'input': open(p, encoding='utf-8').read()})

os.makedirs('/verif/corpus', exist_ok=True)
with open('/verif/corpus/seeds.jsonl', 'w', encoding='utf-8') as fh:
    for r in out:
        fh.write(json.dumps(r, ensure_ascii=False) + '\n')
print(len(out), 'seeds')
