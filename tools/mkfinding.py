#!/usr/bin/env python3
"""Helper used while building: write a hand-made regression replay file.
usage: mkregress.py <prop> <name> <clause> <input-as-python-literal> [cursors-json] [cfg-json]"""
import json, os, sys, ast
prop, name, clause, inp = sys.argv[1], sys.argv[2], sys.argv[3], ast.literal_eval(sys.argv[4])
cursors = json.loads(sys.argv[5]) if len(sys.argv) > 5 else []
cfg = {"wrap_column": 120, "begin_always_wrap": False, "format_multiline_strings": True,
       "use_tabs": False, "tab_width": 2, "continuation_indents": 2, "crlf": False}
if len(sys.argv) > 6:
    cfg.update(json.loads(sys.argv[6]))
case = {"gen": "regress", "input": inp, "cfg": cfg}
if cursors:
    case["cursors"] = cursors
d = {"property": prop, "clause": clause, "message": "regression case (see known_findings.json)",
     "facts": ["clause:" + clause], "case": case, "input_hex": inp.encode().hex(), "shrunk": True}
os.makedirs("/verif/findings", exist_ok=True)
json.dump(d, open(f"/verif/findings/{name}.json", "w"), indent=1, ensure_ascii=False)
