#!/bin/bash
# usage: reconfirm_seed.sh <seed-id> <ported-patch.diff>
# A fix: commit in /repo can make an earlier seeded change stop applying. The ported patch (same
# change, re-made against the current HEAD) is confirmed again exactly like a new one
# (tools/confirm_seed.sh) and replaces seeded/<seed-id>/patch.diff; the old one is kept as
# patch.orig.diff.
set -u
sid="$1"; patch="$2"
prop="${sid%-*}"; k="${sid#*-}"
src="/verif/seeded/$sid"
tmp="/tmp/reconfirm-$sid"
rm -rf "$tmp"; mkdir -p "$tmp"
for f in "$src"/*; do
  b=$(basename "$f")
  case "$b" in
    patch.diff|patch.orig.diff|meta.json) ;;
    demo.sh) cp "$f" "$tmp/demo1.sh";;
    agent_meta.json) cp "$f" "$tmp/meta1.json";;
    *) cp -r "$f" "$tmp/";;
  esac
done
cp "$patch" "$tmp/patch1.diff"
cp "$src/patch.diff" "/tmp/reconfirm-$sid.orig.diff"
cp "$src/meta.json" "/tmp/reconfirm-$sid.meta.json"
/verif/tools/confirm_seed.sh "$tmp" 1 "$prop" "$k" || exit 1
cp "/tmp/reconfirm-$sid.orig.diff" "$src/patch.orig.diff"
python3 - "$src" "/tmp/reconfirm-$sid.meta.json" <<'PY'
import json,sys
src,old=sys.argv[1:]
new=json.load(open(src+'/meta.json')); o=json.load(open(old))
for k in ('checked_against','detected','detected_by'):
    if k in o: new[k]=o[k]
new['ported']="patch.diff is the same change re-made against the current /repo HEAD after a fix: commit touched the same lines; patch.orig.diff is the original"
json.dump(new,open(src+'/meta.json','w'),indent=1,ensure_ascii=False)
PY
rm -rf "$tmp"
