#![no_main]
// Raw text + configuration bytes; the oracle of the property named in VERIF_FUZZ_PROP
// (C01, C04, C08, C13, C14, C15) runs inside the target.
use libfuzzer_sys::fuzz_target;

fuzz_target!(|data: &[u8]| {
    vf::fuzz::text_target(data);
});
