#![no_main]
// The fuzzer's bytes are the choice tape of the grammar generator; the oracle of the property
// named in VERIF_FUZZ_PROP (C02, C03, C05, C06) runs inside the target.
use libfuzzer_sys::fuzz_target;

fuzz_target!(|data: &[u8]| {
    vf::fuzz::prog_target(data);
});
