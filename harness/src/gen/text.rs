//! G-text: arbitrary UTF-8 (DESIGN §3.1).

use crate::engine::Tape;

pub const SIG_ASCII: &[&str] = &[
    "'", "\"", "{", "}", "(", "*", ")", "/", "$", "#", "&", "%", "^", "@", ".", ",", ";", ":", "<",
    ">", "=", "+", "-", "[", "]", "!", "?", "\\", "~", "|", "`",
];

pub const BLANKS: &[&str] = &[
    " ", "\n", "\t", "\r\n", "\r", "  ", "\u{3000}", "\u{b}", "\u{c}", "\0", "\u{1f}", "\n\n",
];

pub const OTHER_CHARS: &[&str] = &[
    "é", "ß", "Ж", "中", "文", "日", "\u{a0}", "\u{2028}", "\u{feff}", "😀", "𝔘", "\u{7f}", "\u{80}",
    "\u{ff}", "\u{2003}", "\u{301}", "ı", "İ", "K", "ſ",
];

pub const FRAGMENTS: &[&str] = &[
    "//", "(*", "*)", "{$", "'''", "''", "pasfmt off", "pasfmt on", "begin", "end", "if", "then",
    "else", "procedure", "function", "class", "record", "case", "of", "try", "except", "finally",
    "asm", "{$ifdef A}", "{$else}", "{$endif}", "{$if ", "{$elseif ", "{$ifend}", ":=", "..", "<>",
    "<=", ">=", "(.", ".)", "#13", "#$0A", "1.5e10", "$FF", "%101", "&begin", "&&", "var", "const",
    "type", "uses", "unit", "interface", "implementation", "// pasfmt off\n", "{ pasfmt on }",
    "repeat", "until", "while", "do", "for", "to", "in", "with", "raise", "on", "property", "read",
    "write", "generic", "<T>", "'a'", "'it''s'", "''''", "'''\n  x\n  '''", "{c}", "(*c*)", "//c\n",
    "label", "goto", "inherited", "exports", "library", "program", "package", "requires",
    "contains", "initialization", "finalization", "strict private", "public", "at", "name",
    "index", "message", "operator", "reference to", "out", "absolute", "helper for",
];

const WORD_CHARS: &[u8] = b"abcdefghijklmnopqrstuvwxyzABCDEFGHIJKLMNOPQRSTUVWXYZ0123456789__";

/// Arbitrary text of roughly up to `max_items` items.
pub fn gen_text(t: &mut Tape, max_items: u32) -> String {
    let mut s = String::new();
    let n = t.below(max_items + 1);
    for _ in 0..n {
        if t.exhausted() {
            break;
        }
        match t.weighted(&[30, 22, 18, 16, 6, 4, 4]) {
            0 => {
                // a word
                let len = 1 + t.below(8);
                for _ in 0..len {
                    s.push(*t.pick(WORD_CHARS) as char);
                }
            }
            1 => s.push_str(t.pick_str(BLANKS)),
            2 => s.push_str(t.pick_str(SIG_ASCII)),
            3 => s.push_str(t.pick_str(FRAGMENTS)),
            4 => s.push_str(t.pick_str(OTHER_CHARS)),
            5 => {
                // any ASCII incl. controls
                s.push(t.below(128) as u8 as char);
            }
            _ => {
                // any scalar value
                let v = t.u32_full() % 0x11_0000;
                if let Some(c) = char::from_u32(v) {
                    s.push(c);
                }
            }
        }
    }
    s
}

/// `String::from_utf8_lossy` of raw tape bytes.
pub fn gen_lossy(t: &mut Tape, max_len: u32) -> String {
    let n = t.below(max_len + 1);
    let mut v = Vec::with_capacity(n as usize);
    for _ in 0..n {
        if t.exhausted() {
            break;
        }
        v.push(t.byte());
    }
    String::from_utf8_lossy(&v).into_owned()
}
