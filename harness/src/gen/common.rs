//! Shared pieces: cursor lists (G-cursor) and the all-input text mixture.

use crate::engine::Tape;

/// 0-8 cursor offsets, always on char boundaries of `s` or beyond its end.
pub fn gen_cursors(t: &mut Tape, s: &str) -> Vec<u32> {
    let n = if t.chance(1, 2) { t.below(3) } else { t.below(9) };
    let mut v = vec![];
    for _ in 0..n {
        let c = match t.below(8) {
            0 => 0,
            1 => s.len() as u32,
            2 => s.len() as u32 + 1,
            3 => u32::MAX,
            4 => s.len() as u32 + t.below(1000),
            _ => {
                let mut p = t.below(s.len() as u32 + 1) as usize;
                while !s.is_char_boundary(p) {
                    p -= 1;
                }
                p as u32
            }
        };
        v.push(c);
    }
    v
}

/// The mixture of arbitrary inputs used by the all-input properties.
pub fn gen_any_input(t: &mut Tape, size: u32) -> (String, &'static str) {
    match t.weighted(&[30, 25, 25, 8, 6, 6]) {
        0 => (crate::gen::soup::gen_soup(t, size), "soup"),
        1 => (crate::gen::text::gen_text(t, size * 2), "text"),
        2 => (crate::gen::seeds::gen_mutated(t), "seedmut"),
        3 => (crate::gen::text::gen_lossy(t, size * 4), "lossy"),
        4 => (crate::gen::adversarial::gen_directive_heavy(t), "directives"),
        _ => (crate::gen::adversarial::gen_deep(t, 60), "deep"),
    }
}
