//! Boundary / adversarial input families (DESIGN §3.8): conditional-directive-heavy inputs,
//! deep nesting (capped), long tokens, huge gaps.

use crate::engine::Tape;

const IFS: &[&str] = &["{$ifdef A}", "{$ifndef B}", "{$if X > 1}", "{$ifopt C+}", "(*$ifdef Z*)", "{$IF Defined(A) and (B > 2)}"];
const ELSES: &[&str] = &["{$else}", "{$elseif Y}", "{$ELSE}", "(*$else*)", "{$elseif Defined(Q)}"];
const ENDS: &[&str] = &["{$endif}", "{$ifend}", "{$ENDIF}", "(*$endif*)"];
const FILL: &[&str] = &[
    "a;", "begin", "end;", "x := 1;", "foo(", ")", "if a then", "else", "b", ",", "procedure P;",
    "type", "T = class", "end", "case x of", "1:", "try", "finally", "uses", "A,", "B;", "var",
    "I: Integer;", "(", "[", "]", "'s'", "// c\n", "{c}", "repeat", "until z;", "",
];

/// Sequences and nestings of conditional blocks, balanced or not.
pub fn gen_directive_heavy(t: &mut Tape) -> String {
    let mut s = String::new();
    let sep = *t.pick(&["\n", " ", "", "\n  "]);
    let mode = t.below(4);
    match mode {
        0 => {
            // N sequential blocks, each with optional else chains
            let n = 1 + t.below(64);
            for _ in 0..n {
                s.push_str(t.pick_str(IFS));
                s.push_str(sep);
                s.push_str(t.pick_str(FILL));
                s.push_str(sep);
                let elses = t.below(3);
                for _ in 0..elses {
                    s.push_str(t.pick_str(ELSES));
                    s.push_str(sep);
                    s.push_str(t.pick_str(FILL));
                    s.push_str(sep);
                }
                s.push_str(t.pick_str(ENDS));
                s.push_str(sep);
                if t.chance(1, 2) {
                    s.push_str(t.pick_str(FILL));
                    s.push_str(sep);
                }
            }
        }
        1 => {
            // nesting depth d, with else branches at each level
            let d = 1 + t.below(64);
            for _ in 0..d {
                s.push_str(t.pick_str(IFS));
                s.push_str(sep);
                s.push_str(t.pick_str(FILL));
                s.push_str(sep);
            }
            for _ in 0..d {
                if t.chance(1, 2) {
                    s.push_str(t.pick_str(ELSES));
                    s.push_str(sep);
                    s.push_str(t.pick_str(FILL));
                    s.push_str(sep);
                }
                s.push_str(t.pick_str(ENDS));
                s.push_str(sep);
            }
        }
        2 => {
            // inside one expression: foo({$ifdef}a{$else}b{$endif}, ...) x N
            let n = 1 + t.below(40);
            s.push_str("foo(");
            for i in 0..n {
                if i > 0 {
                    s.push_str(", ");
                }
                s.push_str(t.pick_str(IFS));
                s.push('a');
                let elses = t.below(3);
                for _ in 0..elses {
                    s.push_str(t.pick_str(ELSES));
                    s.push('b');
                }
                s.push_str(t.pick_str(ENDS));
            }
            s.push_str(");");
        }
        _ => {
            // random, possibly unbalanced
            let n = t.below(80);
            for _ in 0..n {
                match t.below(5) {
                    0 => s.push_str(t.pick_str(IFS)),
                    1 => s.push_str(t.pick_str(ELSES)),
                    2 => s.push_str(t.pick_str(ENDS)),
                    _ => s.push_str(t.pick_str(FILL)),
                }
                s.push_str(sep);
            }
        }
    }
    s
}

pub const OPENERS: &[(&str, &str)] = &[
    ("begin ", "end; "),
    ("(", ")"),
    ("[", "]"),
    ("if a then ", ""),
    ("try ", "finally end; "),
    ("repeat ", "until x; "),
    ("case x of 1: ", "end; "),
    ("foo(", ")"),
    ("a[", "]"),
    ("procedure P; ", ""),
    ("record ", "end"),
    ("class ", "end"),
    ("T<", ">"),
    ("while a do ", ""),
    ("for i := 1 to 2 do ", ""),
    ("with a do ", ""),
    ("x := procedure begin ", "end"),
    ("{$ifdef A} ", "{$endif} "),
    ("begin\n", "end;\n"),
    ("if a then begin ", "end else "),
    ("case x of 1: begin ", "end; end; "),
    ("if a then begin b; ", "end; "),
    ("for i := 1 to 2 do begin ", "end; "),
    ("while a do begin ", "end; "),
    ("try begin ", "end; finally end; "),
    ("Foo(procedure begin ", "end); "),
    ("if a then if b then ", ""),
    ("a.b(c, ", ")"),
    ("if x then begin end else ", ""),
    // directives nested inside the expression of a conditional directive
    ("{$if ", "}"),
    ("(*$if ", "*)"),
    ("{$if A}{$elseif {$if ", "}}"),
    // else-if chains of conditional blocks: each inner block sits in the last branch of the outer
    ("{$ifdef A} a; {$else} ", "{$endif} "),
    ("{$if A} a; {$elseif B} b; {$else} ", "{$ifend} "),
];

/// A nest of `depth` copies of one construct (for the work-scaling oracle).
pub fn nest(kind: usize, depth: usize, close: bool) -> String {
    let (o, c) = OPENERS[kind % OPENERS.len()];
    let mut s = String::new();
    for _ in 0..depth {
        s.push_str(o);
    }
    s.push_str("x;");
    if close {
        for _ in 0..depth {
            s.push_str(c);
        }
    }
    s
}

/// Nested constructs up to `max_depth` (the cap keeps clear of the stack-overflow finding).
pub fn gen_deep(t: &mut Tape, max_depth: u32) -> String {
    let mixed = t.chance(1, 3);
    // mixed nestings deeper than ~40 cost seconds each (measured: the wrapper's search runs to
    // its iteration limit with expensive child lines); they are kept shallow so the tiers stay
    // fixed-work. Single-construct nestings go to max_depth.
    let depth = if mixed { t.below(max_depth.min(40) + 1) } else { t.below(max_depth + 1) };
    let mut kinds = vec![];
    let first = t.below(OPENERS.len() as u32) as usize;
    for _ in 0..depth {
        let k = if mixed { t.below(OPENERS.len() as u32) as usize } else { first };
        kinds.push(k);
    }
    let mut s = String::new();
    for k in &kinds {
        s.push_str(OPENERS[*k].0);
    }
    s.push_str(*t.pick(&["x", "", "a := b;", "'s'", "// c\n"]));
    if !t.chance(1, 4) {
        for k in kinds.iter().rev() {
            s.push_str(OPENERS[*k].1);
        }
    }
    s
}

/// Long tokens and huge gaps (u16 / u8 boundary classes).
pub fn gen_long(t: &mut Tape) -> String {
    let lens = [255usize, 256, 257, 4095, 4096, 4097, 65535, 65536, 65537, 70000, 1000, 31, 32, 33];
    let n = *t.pick(&lens);
    match t.below(8) {
        0 => format!("a{}b;", " ".repeat(n)),
        1 => format!("a;{}b;", "\n".repeat(n)),
        2 => format!("x := {};", "a".repeat(n)),
        3 => format!("x := '{}';", "s".repeat(n)),
        4 => format!("{{{}}} a;", "c".repeat(n)),
        5 => format!("x := '''\n{}\n''';", "m".repeat(n)),
        6 => format!("//{}\na;", "c".repeat(n)),
        _ => format!("a({});", vec!["b"; n.min(5000)].join(", ")),
    }
}
