pub mod seeds;
pub mod soup;
pub mod text;
pub mod adversarial;
pub mod common;
pub mod layout;
pub mod mlstr;
pub mod prog;
