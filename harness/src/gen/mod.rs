pub mod seeds;
pub mod soup;
pub mod text;
pub mod adversarial;
pub mod common;
