//! G-seed: the snapshot of the repository's data-test inputs (DESIGN §3.6), verbatim and mutated.

use std::sync::OnceLock;

use serde::Deserialize;

use crate::engine::findings::root;
use crate::engine::Tape;

#[derive(Deserialize, Clone, Debug)]
pub struct Seed {
    pub name: String,
    pub kind: String,
    pub input: String,
    #[serde(default)]
    pub output: Option<String>,
    #[serde(default)]
    pub wrap_column: Option<u32>,
}

static SEEDS: OnceLock<Vec<Seed>> = OnceLock::new();

pub fn seeds() -> &'static [Seed] {
    SEEDS.get_or_init(|| {
        let path = format!("{}/corpus/seeds.jsonl", root());
        let s = std::fs::read_to_string(&path).unwrap_or_else(|e| {
            eprintln!("cannot read {path}: {e}");
            std::process::exit(2)
        });
        s.lines()
            .filter(|l| !l.trim().is_empty())
            .map(|l| serde_json::from_str::<Seed>(l).expect("seed line"))
            .collect()
    })
}

/// All seed texts: inputs and (distinct) expected outputs.
pub fn texts() -> &'static [(String, String)] {
    static T: OnceLock<Vec<(String, String)>> = OnceLock::new();
    T.get_or_init(|| {
        let mut v = vec![];
        for s in seeds() {
            v.push((s.name.clone(), s.input.clone()));
            if let Some(o) = &s.output {
                if *o != s.input {
                    v.push((format!("{}#out", s.name), o.clone()));
                }
            }
        }
        v
    })
}

fn floor_boundary(s: &str, mut i: usize) -> usize {
    i = i.min(s.len());
    while !s.is_char_boundary(i) {
        i -= 1;
    }
    i
}

fn pick_pos(t: &mut Tape, s: &str) -> usize {
    let n = s.len() as u32;
    floor_boundary(s, t.below(n + 1) as usize)
}

/// Split into rough lexical spans (words, blanks, single other chars) for span-level mutation.
fn spans(s: &str) -> Vec<(usize, usize)> {
    let mut v = vec![];
    let mut it = s.char_indices().peekable();
    while let Some((i, c)) = it.next() {
        let class = |c: char| {
            if c.is_alphanumeric() || c == '_' {
                0
            } else if c <= ' ' {
                1
            } else {
                2
            }
        };
        let k = class(c);
        let mut end = i + c.len_utf8();
        if k != 2 {
            while let Some(&(j, d)) = it.peek() {
                if class(d) == k {
                    end = j + d.len_utf8();
                    it.next();
                } else {
                    break;
                }
            }
        }
        v.push((i, end));
    }
    v
}

/// A mutated seed for the all-input properties: truncate, delete / duplicate / swap spans,
/// splice two seeds, flip bracket kinds, drop `end`s, change line endings.
pub fn gen_mutated(t: &mut Tape) -> String {
    let all = texts();
    let mut s = all[t.below(all.len() as u32) as usize].1.clone();
    let n_mut = t.below(4);
    for _ in 0..n_mut {
        if s.is_empty() {
            break;
        }
        match t.below(10) {
            0 => {
                let p = pick_pos(t, &s);
                s.truncate(p);
            }
            1 => {
                let p = pick_pos(t, &s);
                s = s[p..].to_string();
            }
            2 => {
                let sp = spans(&s);
                let (a, b) = sp[t.below(sp.len() as u32) as usize];
                s.replace_range(a..b, "");
            }
            3 => {
                let sp = spans(&s);
                let (a, b) = sp[t.below(sp.len() as u32) as usize];
                let d = s[a..b].to_string();
                s.insert_str(b, &d);
            }
            4 => {
                let sp = spans(&s);
                if sp.len() >= 2 {
                    let i = t.below(sp.len() as u32 - 1) as usize;
                    let (a, b) = sp[i];
                    let (c, d) = sp[i + 1];
                    let x = s[a..b].to_string();
                    let y = s[c..d].to_string();
                    s.replace_range(a..d, &format!("{y}{x}"));
                }
            }
            5 => {
                let other = &all[t.below(all.len() as u32) as usize].1;
                let p = pick_pos(t, &s);
                let q = pick_pos(t, other);
                s = format!("{}{}", &s[..p], &other[q..]);
            }
            6 => {
                let from = *t.pick(&["(", ")", "[", "]", "<", ">", "begin", "end", ";", "'"]);
                let to = *t.pick(&["[", "]", "(", ")", "", "{", "end", "begin", ",", "\""]);
                s = s.replacen(from, to, 1 + t.below(3) as usize);
            }
            7 => {
                s = s.replace('\n', *t.pick(&["\r\n", "\r", "\n\n", " "]));
            }
            8 => {
                let p = pick_pos(t, &s);
                let ins = *t.pick(crate::gen::text::FRAGMENTS);
                s.insert_str(p, ins);
            }
            _ => {
                let p = pick_pos(t, &s);
                let ins = *t.pick(crate::gen::text::OTHER_CHARS);
                s.insert_str(p, ins);
            }
        }
    }
    s
}
