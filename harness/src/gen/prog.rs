//! G-prog: grammar-derived well-formed Delphi (DESIGN §3.3, Appendix A). Emits a token vector
//! with annotations, not text; `layout` renders it.

use std::collections::BTreeSet;

use crate::engine::{Mark, Tape};
use crate::model::refscan::Kind;

#[derive(Clone, Debug)]
pub struct PTok {
    pub text: String,
    pub kind: Kind,
    /// layout hint: a "pretty" rendering starts a new line before this token
    pub line_start: bool,
    /// layout hint: nesting depth for pretty indentation
    pub depth: u16,
    /// inside the body of an anonymous routine (excluded from C05's own-line rule)
    pub in_anon: bool,
    /// inserted by the comment/directive pass (gaps touching it are fixed in re-layouts)
    pub inserted: bool,
    /// exact blanks to put before this token in every layout (asm instruction lines)
    pub fixed_gap: Option<String>,
}

#[derive(Clone, Debug, Default)]
pub struct Prog {
    pub toks: Vec<PTok>,
    pub marks: Vec<Mark>,
    pub tags: BTreeSet<&'static str>,
}

#[derive(Clone, Copy)]
pub struct Opts {
    /// allow multi-line string literals as primaries
    pub mlstr: bool,
    /// allow asm bodies
    pub asm: bool,
    /// allow anonymous routines
    pub anon: bool,
    /// allow generics
    pub generics: bool,
    /// ASCII-only lexemes (C11 measures width in bytes = chars = columns)
    pub ascii_only: bool,
    /// wrap whole statements / declarations / uses items in conditional directives, and
    /// place compiler directives between declarations and statements
    pub directives: bool,
    /// simple expressions only: no postfix chains, anonymous routines, generics, nested sets
    pub simple: bool,
    /// mostly declaration sections, records (with variant parts) emphasised
    pub decl_heavy: bool,
    /// a (nested) generic type reference as the left operand of `=` / `<>` (C02 only: `>` `=`
    /// must not fuse)
    pub typeref_cmp: bool,
}

impl Default for Opts {
    fn default() -> Self {
        Opts { mlstr: false, asm: false, anon: true, generics: true, ascii_only: false, directives: true, simple: false, decl_heavy: false, typeref_cmp: false }
    }
}

pub struct B<'a, 'b> {
    pub t: &'a mut Tape<'b>,
    pub p: Prog,
    fuel: i32,
    depth: u16,
    anon: u32,
    next_line_start: bool,
    opts: Opts,
    uniq: u32,
    /// nesting of begin/end-like statement lists (inline var/const only inside one)
    blocks: u32,
    /// inside the header (condition / range) of a control-flow statement
    header: u32,
    /// labels declared by the enclosing routine (goto targets / labelled statements)
    labels: Vec<&'static str>,
}

const IDS: &[&str] = &[
    "Foo", "Bar", "Baz", "I", "X", "Value", "Count", "Item", "ListA", "FName", "AIndex", "Tmp",
    "Obj", "Data", "Len", "Ptr", "S", "N", "Flag", "Total", "a", "b", "c", "LongerIdentifierName",
    "Another_Long_Identifier_With_Underscores", "x1", "y2",
];
const IDS_NONASCII: &[&str] = &["Ünï", "Größe", "名前", "&begin", "&type", "&end"];
const TYPES: &[&str] = &[
    "Integer", "string", "Boolean", "TObject", "Double", "Cardinal", "TFoo", "TBar", "IIntf",
    "Byte", "Char", "TList", "Pointer", "Int64", "TArray", "Variant",
];
const LABELS: &[&str] = &["L1", "Retry", "Done", "Index", "Name", "Message", "Read", "Default", "10", "99", "Stored"];
const NUMS: &[&str] = &["0", "1", "2", "10", "255", "1.5", "3.14", "1e5", "2.5E-3", "$FF", "$0A1b", "%101", "1_000", "100000"];
const STRS: &[&str] = &[
    "'a'", "''", "'hello world'", "'it''s'", "#13#10", "'a'#13#10'b'", "#$0D", "'x' + 'y'",
    "'a somewhat longer string literal value'", "'//not a comment'", "'{not}'", "'(*not*)'",
];
const STRS_NONASCII: &[&str] = &["'héllo'", "'日本語'", "'ß'"];
const METHOD_DIRS: &[&str] = &["overload", "virtual", "override", "abstract", "static", "inline", "cdecl", "stdcall", "reintroduce", "dynamic", "final"];

impl<'a, 'b> B<'a, 'b> {
    pub fn new(t: &'a mut Tape<'b>, fuel: i32, opts: Opts) -> Self {
        B { t, p: Prog::default(), fuel, depth: 0, anon: 0, next_line_start: true, opts, uniq: 0, blocks: 0, header: 0, labels: Vec::new() }
    }

    fn push(&mut self, text: &str, kind: Kind) -> u32 {
        let idx = self.p.toks.len() as u32;
        self.p.toks.push(PTok {
            text: text.to_string(),
            kind,
            line_start: self.next_line_start,
            depth: self.depth,
            in_anon: self.anon > 0,
            inserted: false,
            fixed_gap: None,
        });
        self.next_line_start = false;
        idx
    }
    /// A word whose kind (keyword or identifier) is whatever the reference scanner says.
    fn word(&mut self, s: &str) -> u32 {
        let k = crate::model::refscan::scan(s)[0].kind;
        self.push(s, k)
    }
    fn kw(&mut self, s: &str) -> u32 {
        self.push(s, Kind::Keyword)
    }
    fn op(&mut self, s: &str) -> u32 {
        self.push(s, Kind::Op)
    }
    fn ident_text(&mut self) -> String {
        if !self.opts.ascii_only && self.t.chance(1, 14) {
            self.p.tags.insert("non-ascii-or-escaped-ident");
            self.t.pick_str(IDS_NONASCII).to_string()
        } else {
            self.t.pick_str(IDS).to_string()
        }
    }
    fn id(&mut self) -> u32 {
        let s = self.ident_text();
        self.push(&s, Kind::Ident)
    }
    fn named(&mut self, s: &str) -> u32 {
        self.push(s, Kind::Ident)
    }
    fn fresh(&mut self, prefix: &str) -> u32 {
        self.uniq += 1;
        let s = format!("{prefix}{}", self.uniq);
        self.push(&s, Kind::Ident)
    }
    fn type_name(&mut self) {
        let s = self.t.pick_str(TYPES);
        if s == "string" {
            self.kw("string");
        } else {
            self.named(s);
        }
    }
    fn class_type_name(&mut self) {
        let s = *self.t.pick(&["TObject", "TFoo", "TBar", "TList", "IIntf"]);
        self.named(s);
    }
    fn nl(&mut self) {
        self.next_line_start = true;
    }
    fn tag(&mut self, s: &'static str) {
        self.p.tags.insert(s);
    }
    fn mark(&mut self, tok: u32, anchor: u32, role: u8) {
        if self.anon == 0 {
            self.p.marks.push(Mark { tok, anchor, role });
        }
    }
    /// Mark a token that must start a line at indentation 0 (file-level keywords and headers).
    fn mark_top(&mut self, tok: u32) {
        if self.depth == 0 && self.anon == 0 && self.blocks == 0 {
            self.p.marks.push(Mark { tok, anchor: tok, role: 3 });
        }
    }
    fn spend(&mut self) -> bool {
        self.fuel -= 1;
        self.fuel > 0 && !self.t.exhausted()
    }

    fn directive(&mut self, text: &str) {
        let kind = {
            let l = text.to_ascii_lowercase();
            if ["{$if", "{$else", "{$endif", "{$ifend", "(*$if", "(*$else", "(*$endif"].iter().any(|p| l.starts_with(p)) {
                Kind::DirectiveCond
            } else {
                Kind::DirectiveCompiler
            }
        };
        self.nl();
        let save = self.depth;
        self.depth = 0;
        let i = self.push(text, kind) as usize;
        self.p.toks[i].inserted = true;
        self.depth = save;
        self.nl();
    }

    /// Opening conditional directive; returns the matching closer.
    fn cond_open(&mut self) -> &'static str {
        self.tag("conditional-directive");
        let (o, c) = *self.t.pick(&[
            ("{$IFDEF DEBUG}", "{$ENDIF}"),
            ("{$ifdef A}", "{$endif}"),
            ("{$IFNDEF B}", "{$ENDIF}"),
            ("{$IF Defined(X) and (Y > 2)}", "{$IFEND}"),
            ("{$if CompilerVersion >= 30}", "{$endif}"),
            ("(*$IFDEF Z*)", "(*$ENDIF*)"),
            ("{$IFOPT C+}", "{$ENDIF}"),
            ("{$ifdef ifdef_guard}", "{$endif}"),
            ("{$if defined(notify) or defined(if_x)}", "{$ifend}"),
            ("{$IfDef MixedCase}", "{$EndIf}"),
        ]);
        self.directive(o);
        c
    }

    fn compiler_directive(&mut self) {
        self.tag("compiler-directive");
        let d = *self.t.pick(&[
            "{$R *.res}", "{$define FOO}", "{$WARNINGS OFF}", "{$I inc.inc}", "{$R+}", "{$REGION 'x'}", "{$hints on}",
            "{$include include/defs.inc}", "{$region 'region: x'}", "{$define define_guard}", "{$Message Hint 'a message'}",
            "(*$warn symbol_platform off*)", "{$i+}", "{$minenumsize 4}",
        ]);
        self.directive(d);
    }

    // ---------------------------------------------------------------- expressions

    fn label_ref(&mut self) {
        let i = self.t.below(self.labels.len() as u32) as usize;
        let l = self.labels[i];
        if l.as_bytes()[0].is_ascii_digit() {
            self.push(l, Kind::Number);
        } else {
            self.word(l);
        }
    }
    fn number(&mut self) {
        let s = self.t.pick_str(NUMS);
        self.push(s, Kind::Number);
    }
    fn string(&mut self) {
        let s = if !self.opts.ascii_only && self.t.chance(1, 10) {
            self.t.pick_str(STRS_NONASCII)
        } else {
            self.t.pick_str(STRS)
        };
        if s == "'x' + 'y'" {
            self.push("'x'", Kind::Text);
            self.op("+");
            self.push("'y'", Kind::Text);
        } else {
            self.push(s, Kind::Text);
        }
    }

    fn designator(&mut self, lvl: u32) {
        if self.opts.generics && !self.opts.simple && lvl < 2 && self.t.chance(1, 24) {
            // TFoo<T>.Create(...)
            self.tag("generic-expr");
            let n = *self.t.pick(&["TList", "TDict", "TFoo", "TDict"]);
            self.named(n);
            self.op("<");
            self.type_name();
            if n == "TDict" {
                self.op(",");
                self.type_name();
            }
            self.op(">");
            if self.t.chance(1, 3) {
                // generic routine call: Name<A, B>(args)
                self.args(lvl + 1);
                return;
            }
            self.op(".");
            self.named("Create");
            if self.t.chance(1, 2) {
                self.args(lvl + 1);
            }
            return;
        }
        self.id();
        if self.opts.simple {
            // at most `.Id` parts and one final call or index
            let n = self.t.below(3);
            for _ in 0..n {
                self.op(".");
                self.id();
            }
            match self.t.below(4) {
                0 => self.args(lvl + 1),
                1 => {
                    self.op("[");
                    self.add_expr(lvl + 2);
                    self.op("]");
                }
                _ => {}
            }
            return;
        }
        let n = self.t.below(4);
        for _ in 0..n {
            if !self.spend() {
                break;
            }
            let which = self.t.below(6);
            if which >= 2 && which != 3 && self.p.toks.last().is_some_and(|t| t.text == "]" || t.text == ")") {
                // `a[i][j]`, `a[i](x)`, `f(x)[i]`, `f(x)(y)`: postfix directly after a closing bracket
                self.tag("postfix-after-bracket");
            }
            match which {
                0 | 1 => {
                    self.op(".");
                    if self.t.chance(1, 10) {
                        // a member whose name is spelled like a keyword (an identifier after a dot)
                        let m = *self.t.pick(&["Type", "Unit", "End", "Begin", "Name", "Index", "Read", "Message", "Default", "Label", "Of", "Object", "Property", "File"]);
                        self.named(m);
                        self.tag("keyword-named-member");
                    } else {
                        self.id();
                    }
                }
                2 => {
                    self.op("[");
                    self.expr(lvl + 1);
                    if self.t.chance(1, 4) {
                        self.op(",");
                        self.expr(lvl + 1);
                    }
                    self.op("]");
                }
                3 => {
                    self.op("^");
                }
                _ => {
                    self.args(lvl + 1);
                }
            }
        }
    }

    fn args(&mut self, lvl: u32) {
        self.op("(");
        let n = self.t.below(4);
        for i in 0..n {
            if i > 0 {
                self.op(",");
            }
            self.arg_expr(lvl);
        }
        self.op(")");
    }

    /// An argument: relational expressions are parenthesised (`Foo(a < b, c > d)` is ambiguous).
    fn arg_expr(&mut self, lvl: u32) {
        if self.opts.anon && !self.opts.simple && lvl < 2 && self.fuel > 12 && self.t.chance(1, 16) {
            self.anon_routine();
            return;
        }
        self.add_expr(lvl);
    }

    pub fn expr(&mut self, lvl: u32) {
        if self.opts.typeref_cmp && self.opts.generics && lvl < 2 && self.t.chance(1, 30) {
            // TList<TArray<Integer>> = AClass
            self.tag("generic-typeref-compare");
            self.named("TList");
            self.op("<");
            let nested = self.t.chance(2, 3);
            if nested {
                self.named("TArray");
                self.op("<");
            }
            self.type_name();
            if nested {
                self.op(">");
            }
            self.op(">");
            let o = *self.t.pick(&["=", "<>"]);
            self.op(o);
            self.add_expr(lvl + 1);
            self.tag("relational");
            return;
        }
        self.add_expr(lvl);
        if lvl < 3 && self.spend() && self.t.chance(1, 4) {
            let o = *self.t.pick(&["=", "<>", "<", ">", "<=", ">=", "in", "is"]);
            match o {
                "in" | "is" => {
                    self.kw(o);
                }
                _ => {
                    self.op(o);
                }
            }
            if o == "is" {
                self.class_type_name();
            } else if o == "in" {
                self.set_ctor(lvl + 1);
            } else {
                self.add_expr(lvl + 1);
            }
            self.tag("relational");
        }
    }

    fn set_ctor(&mut self, lvl: u32) {
        self.op("[");
        let n = self.t.below(4);
        for i in 0..n {
            if i > 0 {
                self.op(",");
            }
            self.mul_expr(lvl);
            if self.t.chance(1, 4) {
                self.op("..");
                self.mul_expr(lvl);
            }
        }
        self.op("]");
    }

    fn add_expr(&mut self, lvl: u32) {
        self.mul_expr(lvl);
        let mut n = 0;
        while lvl < 4 && n < 4 && self.spend() && self.t.chance(1, 3) {
            n += 1;
            let o = *self.t.pick(&["+", "-", "or", "xor", "+", "-"]);
            if o == "or" || o == "xor" {
                self.kw(o);
            } else {
                self.op(o);
            }
            self.mul_expr(lvl + 1);
        }
    }

    fn mul_expr(&mut self, lvl: u32) {
        self.unary(lvl);
        let mut n = 0;
        while lvl < 4 && n < 3 && self.spend() && self.t.chance(1, 4) {
            n += 1;
            let o = *self.t.pick(&["*", "/", "div", "mod", "and", "shl", "shr", "as"]);
            if o == "*" || o == "/" {
                self.op(o);
            } else {
                self.kw(o);
            }
            if o == "as" {
                self.class_type_name();
            } else {
                self.unary(lvl + 1);
            }
        }
    }

    fn unary(&mut self, lvl: u32) {
        if self.t.chance(1, 8) {
            match self.t.below(4) {
                0 => {
                    self.kw("not");
                }
                1 => {
                    self.op("-");
                }
                2 => {
                    self.op("@");
                    self.designator(lvl + 1);
                    return;
                }
                _ => {
                    self.op("+");
                }
            }
        }
        self.primary(lvl);
    }

    fn primary(&mut self, lvl: u32) {
        let deep = lvl >= 4 || self.fuel <= 0;
        let w: [u32; 9] = if deep {
            [5, 3, 2, 0, 0, 0, 1, 0, 0]
        } else {
            [8, 4, 3, 3, 1, 2, 1, if self.opts.mlstr { 2 } else { 0 }, 1]
        };
        match self.t.weighted(&w) {
            0 => self.designator(lvl),
            1 => self.number(),
            2 => self.string(),
            3 => {
                self.op("(");
                self.expr(lvl + 1);
                self.op(")");
            }
            4 => self.set_ctor(lvl + 1),
            5 => {
                // cast / call with type name
                self.type_name();
                self.op("(");
                self.expr(lvl + 1);
                self.op(")");
            }
            6 => {
                self.kw("nil");
            }
            7 => {
                self.tag("mlstr");
                let s = crate::gen::mlstr::gen_valid_literal(self.t, self.opts.ascii_only);
                self.push(&s, Kind::TextMulti);
                if self.t.chance(1, 3) {
                    self.op(".");
                    self.named("Trim");
                }
            }
            _ => {
                self.kw("inherited");
                self.named("Create");
                if self.t.chance(1, 2) {
                    self.args(lvl + 1);
                }
            }
        }
    }

    fn anon_routine(&mut self) {
        self.tag("anon-routine");
        if self.header > 0 {
            self.tag("anon-in-header");
        }
        let toks_before = self.p.toks.len();
        self.anon += 1;
        let is_fn = self.t.chance(1, 3);
        self.kw(if is_fn { "function" } else { "procedure" });
        if self.t.chance(1, 2) {
            self.params();
        }
        if is_fn {
            self.op(":");
            self.type_name();
        }
        if self.t.chance(1, 5) {
            self.depth += 1;
            self.nl();
            self.kw("var");
            self.depth += 1;
            self.nl();
            self.fresh("L");
            self.op(":");
            self.type_name();
            self.op(";");
            self.depth -= 2;
        }
        if self.p.toks[toks_before..].iter().any(|t| t.text.eq_ignore_ascii_case("of")) {
            self.tag("anon-array-of-param");
        }
        self.nl();
        let b = self.kw("begin");
        let h = std::mem::take(&mut self.header);
        self.stmt_list(b, "end");
        self.header = h;
        self.anon -= 1;
    }

    // ---------------------------------------------------------------- statements

    /// Statement list after an opener token; emits the closer keyword. Marks statements.
    fn stmt_list(&mut self, opener: u32, closer: &str) {
        self.depth += 1;
        self.blocks += 1;
        let n = if self.fuel <= 0 { 0 } else { self.t.below(5) };
        for i in 0..n {
            if self.opts.directives && self.anon == 0 && self.fuel > 4 && self.t.chance(1, 14) {
                if self.t.chance(1, 4) {
                    self.compiler_directive();
                } else {
                    // {$IFDEF} S1; [{$ELSE} S2;] {$ENDIF}
                    let closer = self.cond_open();
                    let first = self.p.toks.len() as u32;
                    self.stmt(false);
                    self.mark(first, opener, 0);
                    self.op(";");
                    // further branches: {$ELSEIF ..} / {$ELSE}, each holding a statement, only a
                    // compiler directive, or nothing at all
                    let extra = *self.t.pick(&[0, 1, 0, 1, 2, 3]);
                    for b in 0..extra {
                        if b + 1 == extra && self.t.chance(2, 3) {
                            let e = *self.t.pick(&["{$ELSE}", "{$else}", "(*$ELSE*)"]);
                            self.directive(e);
                        } else {
                            let e = *self.t.pick(&["{$ELSEIF Defined(Q)}", "{$elseif R > 1}", "{$ELSEIF Defined(Q) or Defined(S)}"]);
                            self.directive(e);
                            self.tag("directive-ladder");
                        }
                        match self.t.below(4) {
                            0 => self.tag("empty-branch"),
                            1 => {
                                self.tag("empty-branch");
                                self.compiler_directive();
                            }
                            _ => {
                                let first = self.p.toks.len() as u32;
                                self.stmt(false);
                                self.mark(first, opener, 0);
                                self.op(";");
                            }
                        }
                    }
                    self.directive(closer);
                }
            }
            self.nl();
            if !self.labels.is_empty() && self.anon == 0 && self.t.chance(1, 5) {
                // labelled statement: the label is rendered on a line of its own at statement level
                let l = self.p.toks.len() as u32;
                self.label_ref();
                self.op(":");
                self.mark(l, opener, 0);
                self.tag("labelled-stmt");
                self.nl();
            }
            let first = self.p.toks.len() as u32;
            let last = i + 1 == n;
            self.stmt(false);
            if (self.p.toks.len() as u32) > first {
                self.mark(first, opener, 0);
            }
            if !last || self.t.chance(3, 4) {
                self.op(";");
            }
        }
        self.depth -= 1;
        self.blocks -= 1;
        self.nl();
        let c = self.kw(closer);
        self.mark(c, opener, 1);
    }

    /// Body of a control-flow statement: a single statement or a begin..end block.
    /// `ctrl` = first token of the controlling statement (or `else`).
    fn body(&mut self, ctrl: u32, no_dangling_if: bool) {
        if self.t.chance(1, 2) || self.fuel <= 0 {
            let b = self.kw("begin");
            self.mark(b, ctrl, 2);
            // statements are one level deeper than the controlling statement's line, whether the
            // `begin` stays on that line (auto) or gets its own (always_wrap)
            self.stmt_list(ctrl, "end");
        } else {
            self.depth += 1;
            self.nl();
            self.stmt(no_dangling_if);
            self.depth -= 1;
        }
    }

    /// One statement (never empty). `no_open_if`: must not end in an `if` without `else`.
    fn stmt(&mut self, no_open_if: bool) {
        if !self.spend() {
            self.simple_stmt();
            return;
        }
        match self.t.weighted(&[10, 8, 5, 4, 3, 3, 2, 3, 3, 2, 2, 2, 1, 1]) {
            0 => self.simple_stmt(),
            1 => {
                // assignment
                self.designator(0);
                self.op(":=");
                if self.opts.anon && !self.opts.simple && self.fuel > 12 && self.t.chance(1, 12) {
                    self.anon_routine();
                } else {
                    self.expr(0);
                }
                self.tag("assignment");
            }
            2 => {
                // if
                self.tag("if");
                let k = self.kw("if");
                self.header += 1;
                self.expr(0);
                self.header -= 1;
                self.kw("then");
                let has_else = no_open_if || self.t.chance(1, 2);
                self.body(k, has_else);
                if has_else {
                    self.nl();
                    let e = self.kw("else");
                    if !no_open_if && self.t.chance(1, 4) {
                        // else-if chain
                        self.stmt_if_chain(e);
                    } else {
                        self.body(e, no_open_if);
                    }
                }
            }
            3 => {
                let b = self.kw("begin");
                self.stmt_list(b, "end");
                self.tag("compound");
            }
            4 => {
                self.tag("for");
                let k = self.kw("for");
                self.header += 1;
                if self.blocks > 0 && self.t.chance(1, 4) {
                    self.kw("var");
                    self.tag("inline-var");
                }
                self.id();
                if self.t.chance(1, 3) {
                    self.kw("in");
                    self.designator(1);
                } else {
                    self.op(":=");
                    self.add_expr(1);
                    let down = self.t.chance(1, 4);
                    self.kw(if down { "downto" } else { "to" });
                    self.add_expr(1);
                }
                self.header -= 1;
                self.kw("do");
                self.body(k, no_open_if);
            }
            5 => {
                self.tag("while");
                let k = self.kw("while");
                self.header += 1;
                self.expr(0);
                self.header -= 1;
                self.kw("do");
                self.body(k, no_open_if);
            }
            6 => {
                self.tag("repeat");
                let r = self.kw("repeat");
                self.stmt_list(r, "until");
                self.expr(0);
            }
            7 => {
                self.tag("case");
                let k = self.kw("case");
                self.header += 1;
                self.expr(1);
                self.header -= 1;
                self.kw("of");
                self.depth += 1;
                let n = 1 + self.t.below(3);
                for _ in 0..n {
                    self.nl();
                    let lab = self.p.toks.len() as u32;
                    self.number();
                    if self.t.chance(1, 3) {
                        self.op(",");
                        self.number();
                    } else if self.t.chance(1, 4) {
                        self.op("..");
                        self.number();
                    }
                    self.op(":");
                    if self.t.chance(1, 8) {
                        // an empty arm: `1: ;`
                        self.tag("empty-case-arm");
                    } else {
                        self.body(lab, false);
                    }
                    self.op(";");
                }
                self.depth -= 1;
                if self.t.chance(1, 3) {
                    self.nl();
                    let e = self.kw("else");
                    self.mark(e, k, 1);
                    // statements of case-else; the list's closer is the case's `end`
                    self.depth += 1;
                    let m = 1 + self.t.below(2);
                    for _ in 0..m {
                        self.nl();
                        let first = self.p.toks.len() as u32;
                        self.stmt(false);
                        self.mark(first, e, 0);
                        self.op(";");
                    }
                    self.depth -= 1;
                }
                self.nl();
                let c = self.kw("end");
                self.mark(c, k, 1);
            }
            8 => {
                self.tag("try");
                let k = self.kw("try");
                if self.t.chance(1, 2) {
                    self.stmt_list(k, "finally");
                    let f = (self.p.toks.len() - 1) as u32;
                    self.stmt_list(f, "end");
                    // `end` closes the try: also at the try's indentation
                    let c = (self.p.toks.len() - 1) as u32;
                    self.mark(c, k, 1);
                } else {
                    self.stmt_list(k, "except");
                    let x = (self.p.toks.len() - 1) as u32;
                    if self.t.chance(1, 2) {
                        self.stmt_list(x, "end");
                    } else {
                        self.tag("on-handler");
                        self.depth += 1;
                        let n = 1 + self.t.below(2);
                        for _ in 0..n {
                            self.nl();
                            let o = self.kw("on");
                            self.mark(o, x, 0);
                            if self.t.chance(2, 3) {
                                self.named("E");
                                self.op(":");
                            }
                            self.named("Exception");
                            self.kw("do");
                            self.body(o, false);
                            self.op(";");
                        }
                        self.depth -= 1;
                        if self.t.chance(1, 3) {
                            self.nl();
                            let e = self.kw("else");
                            self.mark(e, k, 1);
                            self.depth += 1;
                            self.nl();
                            let first = self.p.toks.len() as u32;
                            self.stmt(false);
                            self.mark(first, e, 0);
                            self.op(";");
                            self.depth -= 1;
                        }
                        self.nl();
                        let c = self.kw("end");
                        self.mark(c, x, 1);
                    }
                    let c = (self.p.toks.len() - 1) as u32;
                    self.mark(c, k, 1);
                }
            }
            9 => {
                self.tag("with");
                let k = self.kw("with");
                self.header += 1;
                self.designator(1);
                if self.t.chance(1, 4) {
                    self.op(",");
                    self.designator(1);
                }
                self.header -= 1;
                self.kw("do");
                self.body(k, no_open_if);
            }
            10 => {
                self.tag("raise");
                self.kw("raise");
                if self.t.chance(3, 4) {
                    self.named("Exception");
                    self.op(".");
                    self.named("Create");
                    self.op("(");
                    self.expr(1);
                    self.op(")");
                }
            }
            11 if self.blocks == 0 => self.simple_stmt(),
            11 => {
                // inline var / const
                self.tag("inline-var");
                if self.t.chance(2, 3) {
                    self.kw("var");
                    self.fresh("V");
                    if self.t.chance(1, 2) {
                        self.op(":");
                        self.type_name();
                    }
                    self.op(":=");
                } else {
                    self.kw("const");
                    self.fresh("K");
                    self.op("=");
                }
                self.expr(0);
            }
            12 => {
                self.kw("inherited");
                if self.t.chance(1, 2) {
                    self.named("Create");
                    self.args(1);
                }
                self.tag("inherited");
            }
            _ => {
                self.named("exit");
                if self.t.chance(1, 3) {
                    self.op("(");
                    self.expr(1);
                    self.op(")");
                }
            }
        }
    }

    /// `d` nested blocks (begin/end, try/finally, repeat/until, if-then-begin) with a statement inside.
    fn nested_blocks(&mut self, d: u32) {
        self.nl();
        if d == 0 {
            self.simple_stmt();
            return;
        }
        match self.t.below(4) {
            0 => {
                let b = self.kw("begin");
                self.depth += 1;
                self.blocks += 1;
                let first = self.p.toks.len() as u32;
                self.nested_blocks(d - 1);
                self.mark(first, b, 0);
                self.op(";");
                self.blocks -= 1;
                self.depth -= 1;
                self.nl();
                let e = self.kw("end");
                self.mark(e, b, 1);
            }
            1 => {
                let k = self.kw("if");
                self.named("Flag");
                self.kw("then");
                let b = self.kw("begin");
                self.mark(b, k, 2);
                self.depth += 1;
                self.blocks += 1;
                let first = self.p.toks.len() as u32;
                self.nested_blocks(d - 1);
                self.mark(first, k, 0);
                self.op(";");
                self.blocks -= 1;
                self.depth -= 1;
                self.nl();
                let e = self.kw("end");
                self.mark(e, k, 1);
            }
            2 => {
                let k = self.kw("try");
                self.depth += 1;
                self.blocks += 1;
                let first = self.p.toks.len() as u32;
                self.nested_blocks(d - 1);
                self.mark(first, k, 0);
                self.op(";");
                self.blocks -= 1;
                self.depth -= 1;
                self.nl();
                let f = self.kw("finally");
                self.mark(f, k, 1);
                self.depth += 1;
                self.nl();
                let c = self.p.toks.len() as u32;
                self.simple_stmt();
                self.mark(c, f, 0);
                self.op(";");
                self.depth -= 1;
                self.nl();
                let e = self.kw("end");
                self.mark(e, k, 1);
            }
            _ => {
                let k = self.kw("repeat");
                self.depth += 1;
                self.blocks += 1;
                let first = self.p.toks.len() as u32;
                self.nested_blocks(d - 1);
                self.mark(first, k, 0);
                self.op(";");
                self.blocks -= 1;
                self.depth -= 1;
                self.nl();
                let u = self.kw("until");
                self.mark(u, k, 1);
                self.named("Done");
            }
        }
    }

    fn stmt_if_chain(&mut self, else_tok: u32) {
        self.kw("if");
        self.header += 1;
        self.expr(0);
        self.header -= 1;
        self.kw("then");
        let has_else = self.t.chance(1, 2);
        self.body(else_tok, has_else);
        if has_else {
            self.nl();
            let e = self.kw("else");
            self.body(e, false);
        }
    }

    fn simple_stmt(&mut self) {
        if !self.labels.is_empty() && self.anon == 0 && self.t.chance(1, 5) {
            self.kw("goto");
            self.label_ref();
            self.tag("goto");
            return;
        }
        // call
        self.id();
        if self.t.chance(1, 2) {
            self.op(".");
            self.id();
        }
        if self.t.chance(3, 4) {
            self.args(1);
        }
        self.tag("call");
    }

    // ---------------------------------------------------------------- declarations

    fn params(&mut self) {
        self.op("(");
        let n = self.t.below(4);
        for i in 0..n {
            if i > 0 {
                self.op(";");
            }
            match self.t.below(5) {
                0 => {
                    self.kw("const");
                }
                1 => {
                    self.kw("var");
                }
                2 => {
                    self.kw("out");
                }
                _ => {}
            }
            self.fresh("A");
            if self.t.chance(1, 4) {
                self.op(",");
                self.fresh("A");
            }
            self.op(":");
            if self.t.chance(1, 8) {
                self.kw("array");
                self.kw("of");
            }
            self.type_name();
            if self.t.chance(1, 8) {
                self.op("=");
                self.number();
            }
        }
        self.op(")");
    }

    fn type_ref(&mut self) {
        match self.t.weighted(&if self.opts.decl_heavy { [10, 2, 2, 2, 2, 1, 1, 1, 1, 6] } else { [10, 2, 2, 2, 1, 1, 1, 1, 1, 1] }) {
            6 => {
                self.tag("packed-type");
                self.kw("packed");
                self.kw("array");
                self.op("[");
                self.number();
                self.op("..");
                self.number();
                if self.t.chance(1, 3) {
                    self.op(",");
                    self.named("Boolean");
                }
                self.op("]");
                self.kw("of");
                self.type_name();
            }
            7 => {
                self.tag("short-string");
                self.kw("string");
                self.op("[");
                self.number();
                self.op("]");
            }
            8 => {
                self.tag("file-of");
                self.kw("file");
                if self.t.chance(2, 3) {
                    self.kw("of");
                    self.type_name();
                }
            }
            9 if self.opts.generics => {
                self.tag("nested-generic");
                self.named("TDict");
                self.op("<");
                self.type_name();
                self.op(",");
                self.named("TList");
                self.op("<");
                if self.t.chance(1, 2) {
                    // three levels
                    self.named("TPair");
                    self.op("<");
                    self.type_name();
                    self.op(",");
                    self.type_name();
                    self.op(">");
                } else {
                    self.type_name();
                }
                self.op(">");
                self.op(">");
            }
            0 => self.type_name(),
            1 => {
                self.kw("array");
                if self.t.chance(1, 2) {
                    self.op("[");
                    self.number();
                    self.op("..");
                    self.number();
                    self.op("]");
                }
                self.kw("of");
                self.type_name();
            }
            2 => {
                self.op("^");
                self.type_name();
            }
            3 => {
                self.kw("set");
                self.kw("of");
                self.type_name();
            }
            4 if self.opts.generics => {
                self.tag("generic-type");
                self.named("TList");
                self.op("<");
                self.type_name();
                self.op(">");
            }
            _ => {
                self.number();
                self.op("..");
                self.number();
            }
        }
    }

    fn var_section(&mut self, kwd: &str) {
        self.nl();
        let k = self.kw(kwd);
        self.mark_top(k);
        self.depth += 1;
        let n = 1 + self.t.below(3);
        for _ in 0..n {
            self.nl();
            let first = self.fresh("V");
            self.mark(first, k, 0);
            if self.t.chance(1, 4) {
                self.op(",");
                self.fresh("V");
            }
            self.op(":");
            let absolute = kwd == "var" && self.t.chance(1, 8);
            if absolute && self.t.chance(1, 2) {
                // a subrange type: the word `absolute` then directly follows a number literal
                self.number();
                self.op("..");
                self.number();
            } else {
                self.type_ref();
            }
            if absolute {
                self.kw("absolute");
                self.named("Other");
                self.tag("absolute");
            } else if kwd == "var" && self.t.chance(1, 6) {
                self.op("=");
                self.number();
            }
            self.op(";");
        }
        self.depth -= 1;
        self.tag("var-section");
    }

    fn resourcestring_section(&mut self) {
        self.nl();
        let k = self.kw("resourcestring");
        self.mark_top(k);
        self.depth += 1;
        let n = 1 + self.t.below(2);
        for _ in 0..n {
            self.nl();
            let first = self.fresh("S");
            self.mark(first, k, 0);
            self.op("=");
            self.string();
            self.op(";");
        }
        self.depth -= 1;
        self.tag("resourcestring");
    }

    fn const_section(&mut self) {
        self.nl();
        let k = self.kw("const");
        self.mark_top(k);
        self.depth += 1;
        let n = 1 + self.t.below(3);
        for _ in 0..n {
            self.nl();
            let first = self.fresh("C");
            self.mark(first, k, 0);
            if self.t.chance(1, 3) {
                self.op(":");
                self.type_name();
            }
            self.op("=");
            match self.t.below(4) {
                0 => self.string(),
                1 => {
                    self.op("(");
                    self.number();
                    self.op(",");
                    self.number();
                    self.op(")");
                }
                _ => self.add_expr(2),
            }
            self.op(";");
        }
        self.depth -= 1;
        self.tag("const-section");
    }

    fn method_header(&mut self, in_class: bool) {
        if in_class && self.t.chance(1, 6) {
            self.kw("class");
        }
        let k = *self.t.pick(&["procedure", "function", "procedure", "function", "constructor", "destructor"]);
        self.kw(k);
        self.fresh("M");
        if self.t.chance(2, 3) {
            self.params();
        }
        if k == "function" {
            self.op(":");
            self.type_name();
        }
        self.op(";");
        if in_class && !self.opts.simple {
            let n = self.t.below(3);
            let mut used: Vec<&str> = vec![];
            for _ in 0..n {
                let d = self.t.pick_str(METHOD_DIRS);
                if used.contains(&d) {
                    continue;
                }
                used.push(d);
                self.kw(d);
                self.op(";");
            }
            if self.t.chance(1, 12) {
                self.kw("deprecated");
                self.push("'use something else'", Kind::Text);
                self.op(";");
                self.tag("deprecated-msg");
            }
        }
    }

    fn attribute(&mut self) {
        self.tag("attribute");
        self.op("[");
        let a = *self.t.pick(&["Weak", "Attr", "Test", "Column"]);
        self.named(a);
        if a != "Weak" && self.t.chance(1, 2) {
            self.op("(");
            self.number();
            if self.t.chance(1, 2) {
                self.op(",");
                self.string();
            }
            self.op(")");
        }
        self.op("]");
    }

    fn class_members(&mut self, opener_line_tok: u32) {
        // members before any visibility keyword: anchored on the `TFoo = class` line
        self.depth += 1;
        let n = self.t.below(3);
        for _ in 0..n {
            self.nl();
            let f = self.fresh("F");
            self.mark(f, opener_line_tok, 0);
            self.op(":");
            self.type_ref();
            self.op(";");
        }
        self.depth -= 1;
        let sections = self.t.below(4);
        for _ in 0..sections {
            self.nl();
            let v = match self.t.below(5) {
                0 => {
                    let s = self.kw("strict");
                    self.kw("private");
                    s
                }
                1 => self.kw("private"),
                2 => self.kw("protected"),
                3 => self.kw("public"),
                _ => self.kw("published"),
            };
            self.depth += 1;
            let m = self.t.below(4);
            for mi in 0..m {
                self.nl();
                if self.t.chance(1, 10) {
                    self.attribute();
                    self.nl();
                }
                let first = self.p.toks.len() as u32;
                let mut pick = self.t.below(if self.opts.simple { 4 } else { 9 });
                // `class var` opens a section that takes the plain fields after it: only as the
                // last member of its visibility section
                if pick == 6 && mi + 1 != m {
                    pick = 0;
                }
                match pick {
                    0 | 1 => {
                        self.fresh("F");
                        self.op(":");
                        self.type_ref();
                        self.op(";");
                    }
                    2 => self.method_header(true),
                    4 => {
                        // class operator
                        self.tag("class-operator");
                        self.kw("class");
                        self.word("operator");
                        let o = *self.t.pick(&["Add", "Implicit", "Equal", "Negative"]);
                        self.named(o);
                        self.op("(");
                        self.kw("const");
                        self.named("A");
                        if o == "Add" || o == "Equal" {
                            self.op(",");
                            self.named("B");
                        }
                        self.op(":");
                        self.named("TFoo");
                        self.op(")");
                        self.op(":");
                        self.type_name();
                        self.op(";");
                    }
                    5 => {
                        // class constructor / destructor
                        self.tag("class-ctor");
                        self.kw("class");
                        let c = self.t.chance(1, 2);
                        self.kw(if c { "constructor" } else { "destructor" });
                        self.named(if c { "Create" } else { "Destroy" });
                        self.op(";");
                    }
                    6 => {
                        // class var / class property
                        self.tag("class-var");
                        self.kw("class");
                        if self.t.chance(1, 2) {
                            self.kw("var");
                            self.fresh("F");
                            self.op(":");
                            self.type_name();
                            self.op(";");
                        } else {
                            self.kw("property");
                            self.fresh("P");
                            self.op(":");
                            self.type_name();
                            self.word("read");
                            self.fresh("F");
                            self.op(";");
                        }
                    }
                    7 => {
                        // message handler
                        self.tag("message-method");
                        self.kw("procedure");
                        self.fresh("WM");
                        self.op("(");
                        self.kw("var");
                        self.named("Msg");
                        self.op(":");
                        self.named("TMessage");
                        self.op(")");
                        self.op(";");
                        self.word("message");
                        self.named("WM_PAINT");
                        self.op(";");
                    }
                    8 => {
                        // method with a portability hint
                        self.tag("hint-directive");
                        self.kw("procedure");
                        self.fresh("M");
                        self.op(";");
                        let h = *self.t.pick(&["platform", "experimental", "deprecated"]);
                        self.word(h);
                        self.op(";");
                    }
                    _ => {
                        self.tag("property");
                        self.kw("property");
                        self.fresh("P");
                        let array_prop = self.t.chance(1, 4);
                        if array_prop {
                            self.op("[");
                            self.named("AIdx");
                            self.op(":");
                            self.named("Integer");
                            self.op("]");
                        }
                        self.op(":");
                        self.type_name();
                        if !array_prop && self.t.chance(1, 6) {
                            self.kw("index");
                            self.number();
                        }
                        self.kw("read");
                        self.fresh("F");
                        if self.t.chance(1, 2) {
                            self.kw("write");
                            self.fresh("F");
                        }
                        if !array_prop && self.t.chance(1, 6) {
                            self.kw("stored");
                            self.named("False");
                        }
                        if !array_prop && self.t.chance(1, 6) {
                            self.kw("default");
                            self.number();
                        }
                        self.op(";");
                        if array_prop && self.t.chance(1, 2) {
                            self.kw("default");
                            self.op(";");
                        }
                    }
                }
                self.mark(first, v, 0);
            }
            self.depth -= 1;
        }
        self.tag("class-members");
    }

    fn type_section(&mut self) {
        self.nl();
        let k = self.kw("type");
        self.mark_top(k);
        self.depth += 1;
        let n = 1 + self.t.below(3);
        for _ in 0..n {
            self.nl();
            let first = self.fresh("T");
            self.mark(first, k, 0);
            if self.t.chance(1, 12) {
                // attribute on the type declaration (own line)
                let last = self.p.toks.len() - 1;
                let _ = last;
            }
            let mut which = self.t.weighted(&[4, 4, 3, 2, 2, 2, 1, 1, 1]);
            if self.opts.decl_heavy && self.t.chance(1, 2) {
                which = 2;
            }
            if self.opts.generics && matches!(which, 1 | 2 | 5) && self.t.chance(1, 5) {
                self.tag("generic-type");
                self.op("<");
                self.named("T");
                if self.t.chance(1, 3) {
                    self.op(":");
                    self.kw("class");
                    if self.t.chance(1, 2) {
                        self.op(",");
                        self.kw("constructor");
                    }
                }
                if self.t.chance(1, 4) {
                    self.op(";");
                    self.named("K");
                }
                self.op(">");
            }
            self.op("=");
            match which {
                0 => {
                    self.type_ref();
                    self.op(";");
                }
                1 => {
                    self.kw("class");
                    if self.t.chance(1, 2) {
                        self.op("(");
                        self.named("TObject");
                        if self.t.chance(1, 4) {
                            self.op(",");
                            self.named("IIntf");
                        }
                        self.op(")");
                    }
                    self.class_members(first);
                    self.nl();
                    let e = self.kw("end");
                    self.mark(e, first, 1);
                    self.op(";");
                    self.tag("class");
                }
                2 => {
                    if self.t.chance(1, 4) {
                        self.kw("packed");
                    }
                    self.kw("record");
                    self.depth += 1;
                    let m = 1 + self.t.below(3);
                    for _ in 0..m {
                        self.nl();
                        let f = self.fresh("F");
                        self.mark(f, first, 0);
                        self.op(":");
                        self.type_ref();
                        self.op(";");
                    }
                    // records with methods (before any variant part)
                    if !self.opts.simple && self.t.chance(1, 4) {
                        self.tag("record-methods");
                        let k = 1 + self.t.below(2);
                        for _ in 0..k {
                            self.nl();
                            let mfirst = self.p.toks.len() as u32;
                            self.method_header(true);
                            self.mark(mfirst, first, 0);
                        }
                    }
                    self.depth -= 1;
                    if self.t.chance(if self.opts.decl_heavy { 2 } else { 1 }, 3) {
                        self.tag("variant-record");
                        self.nl();
                        self.kw("case");
                        if self.t.chance(1, 2) {
                            self.named("Tag");
                            self.op(":");
                        }
                        self.named("Integer");
                        self.kw("of");
                        self.depth += 1;
                        let arms = 1 + self.t.below(3);
                        for a in 0..arms {
                            self.nl();
                            // one or several labels per arm, numbers or (long) constant names
                            let labels = if self.t.chance(1, 2) { 1 } else { 2 + self.t.below(5) };
                            for l in 0..labels {
                                if l > 0 {
                                    self.op(",");
                                }
                                if self.t.chance(1, 2) {
                                    self.push(&(a * 4 + l).to_string(), Kind::Number);
                                } else {
                                    let n = *self.t.pick(&["AlphaKindLabel", "BetaKindLabel", "GammaKindLabel", "ckA", "DeltaKindLabel", "EpsilonKind", "ckB", "ZetaKindOfLabel"]);
                                    self.named(n);
                                }
                            }
                            self.op(":");
                            self.op("(");
                            let fields = if self.t.chance(1, 6) { 0 } else { 1 + self.t.below(4) };
                            for f in 0..fields {
                                if f > 0 {
                                    self.op(";");
                                }
                                self.fresh("F");
                                if self.t.chance(1, 4) {
                                    self.op(",");
                                    self.fresh("F");
                                }
                                self.op(":");
                                self.type_name();
                            }
                            self.op(")");
                            self.op(";");
                        }
                        self.depth -= 1;
                    }
                    self.nl();
                    let e = self.kw("end");
                    self.mark(e, first, 1);
                    self.op(";");
                    self.tag("record");
                }
                3 => {
                    // enum
                    self.op("(");
                    let m = 1 + self.t.below(4);
                    for i in 0..m {
                        if i > 0 {
                            self.op(",");
                        }
                        self.fresh("e");
                    }
                    self.op(")");
                    self.op(";");
                    self.tag("enum");
                }
                4 => {
                    // procedural type
                    if self.t.chance(1, 3) {
                        self.kw("reference");
                        self.kw("to");
                    }
                    let f = self.t.chance(1, 2);
                    self.kw(if f { "function" } else { "procedure" });
                    if self.t.chance(1, 2) {
                        self.params();
                    }
                    if f {
                        self.op(":");
                        self.type_name();
                    }
                    if self.t.chance(1, 3) {
                        self.kw("of");
                        self.kw("object");
                    }
                    self.op(";");
                    self.tag("proc-type");
                }
                6 => {
                    self.kw("class");
                    self.kw("of");
                    self.named("TFoo");
                    self.op(";");
                    self.tag("class-of");
                }
                7 => {
                    // forward class declaration
                    self.kw("class");
                    self.op(";");
                    self.tag("forward-class");
                }
                8 => {
                    self.kw("class");
                    self.kw("helper");
                    self.kw("for");
                    self.named("TFoo");
                    self.depth += 1;
                    let m = 1 + self.t.below(2);
                    for _ in 0..m {
                        self.nl();
                        let before = self.p.toks.len() as u32;
                        self.method_header(false);
                        self.mark(before, first, 0);
                    }
                    self.depth -= 1;
                    self.nl();
                    let e = self.kw("end");
                    self.mark(e, first, 1);
                    self.op(";");
                    self.tag("class-helper");
                }
                _ => {
                    self.kw("interface");
                    if self.t.chance(1, 2) {
                        self.op("(");
                        self.named("IUnknown");
                        self.op(")");
                    }
                    if self.t.chance(1, 2) {
                        self.depth += 1;
                        self.nl();
                        self.op("[");
                        self.push("'{12345678-1234-1234-1234-123456789ABC}'", Kind::Text);
                        self.op("]");
                        self.depth -= 1;
                        self.tag("guid");
                    }
                    self.depth += 1;
                    let m = self.t.below(3);
                    for _ in 0..m {
                        self.nl();
                        let before = self.p.toks.len() as u32;
                        self.method_header(false);
                        self.mark(before, first, 0);
                    }
                    self.depth -= 1;
                    self.nl();
                    let e = self.kw("end");
                    self.mark(e, first, 1);
                    self.op(";");
                    self.tag("interface-type");
                }
            }
        }
        self.depth -= 1;
        self.tag("type-section");
    }

    /// `asm ... end` with "wild" instruction lines whose spacing must survive byte for byte.
    fn asm_block(&mut self) {
        const LINES: &[&str] = &[
            "  MOV   EAX,  [EBX+4*ECX]", "push   ebp", "\tmov ebp,esp", "@loop:", "  dec ecx;  jnz @loop",
            "  db $90,$90 ,$90", "  mov al, 'x'", "  // comment   in asm", "  call   SysInit.@InitExe",
            "  XOR EAX,EAX   { clear }", "  mov eax, {$ifdef CPUX64} 1 {$else} 2 {$endif}", "  mov   [eax].TFoo.Bar ,  1", "  ret    4", "    LEA  ECX,[EDX*2 + 0FFh]",
            // instructions terminated by a semicolon
            "  inc   eax;", "  ret;", "  mov  eax,1 ;",
        ];
        self.tag("asm");
        self.nl();
        self.kw("asm");
        let n = 1 + self.t.below(4);
        let mut body = String::new();
        for _ in 0..n {
            body.push('\n');
            if self.t.chance(1, 6) {
                body.push('\n');
            }
            body.push_str(self.t.pick_str(LINES));
        }
        // tokenise the body in asm mode (prefix `asm` only to switch the scanner's mode)
        let snippet = format!("asm{body}");
        let toks = crate::model::refscan::scan(&snippet);
        for tk in toks.iter().skip(1) {
            if tk.kind == Kind::Eof {
                break;
            }
            let idx = self.push(tk.text(&snippet), tk.kind) as usize;
            self.p.toks[idx].fixed_gap = Some(snippet[tk.ws_start..tk.start].to_string());
            self.p.toks[idx].inserted = true;
        }
        self.nl();
        self.kw("end");
    }

    fn routine(&mut self) {
        let saved = std::mem::take(&mut self.labels);
        self.routine_inner();
        self.labels = saved;
    }

    fn routine_inner(&mut self) {
        self.nl();
        let is_fn = self.t.chance(1, 2);
        let h = self.kw(if is_fn { "function" } else { "procedure" });
        self.mark_top(h);
        if self.t.chance(1, 3) {
            self.named("TFoo");
            self.op(".");
        }
        self.fresh("R");
        if self.t.chance(2, 3) {
            self.params();
        }
        if is_fn {
            self.op(":");
            self.type_name();
        }
        self.op(";");
        if self.t.chance(1, 8) {
            self.kw("forward");
            self.op(";");
            self.tag("forward");
            return;
        }
        // local sections
        if self.t.chance(1, 3) {
            self.var_section("var");
        }
        if self.t.chance(1, 6) {
            self.const_section();
        }
        if self.t.chance(1, 5) {
            self.nl();
            self.kw("label");
            let n = 1 + self.t.below(3) as usize;
            let start = self.t.below(LABELS.len() as u32) as usize;
            self.labels = (0..n).map(|k| LABELS[(start + k * 3) % LABELS.len()]).collect();
            for k in 0..n {
                if k > 0 {
                    self.op(",");
                }
                let l = self.labels[k];
                if l.as_bytes()[0].is_ascii_digit() {
                    self.push(l, Kind::Number);
                } else {
                    self.word(l);
                }
            }
            self.op(";");
            self.tag("label");
        }
        if self.fuel > 20 && self.t.chance(1, 10) {
            // nested routine
            self.depth += 1;
            self.routine();
            self.depth -= 1;
            self.tag("nested-routine");
        }
        if self.opts.asm && self.t.chance(1, 3) {
            self.asm_block();
            self.op(";");
            self.tag("routine");
            return;
        }
        self.nl();
        let b = self.kw("begin");
        self.mark_top(b);
        let _ = h;
        self.stmt_list(b, "end");
        self.op(";");
        self.tag("routine");
    }

    fn decls(&mut self, interface: bool) {
        let n = self.t.below(4);
        for _ in 0..n {
            if self.fuel <= 0 {
                break;
            }
            let wrap = self.opts.directives && self.t.chance(1, 8);
            let closer = if wrap { Some(self.cond_open()) } else { None };
            if self.opts.directives && !wrap && self.t.chance(1, 10) {
                self.compiler_directive();
            }
            self.decl_one(interface);
            if let Some(c) = closer {
                self.directive(c);
            }
        }
    }

    fn decl_one(&mut self, interface: bool) {
        if self.opts.decl_heavy && self.t.chance(1, 2) {
            self.type_section();
            return;
        }
        {
            match self.t.below(if interface { 5 } else { 7 }) {
                4 if interface => self.resourcestring_section(),
                6 => self.resourcestring_section(),
                0 => {
                    let tv = self.t.chance(1, 8);
                    self.var_section(if tv { "threadvar" } else { "var" })
                }
                1 => self.const_section(),
                2 => self.type_section(),
                3 if interface => {
                    self.nl();
                    self.method_header(false);
                }
                _ => self.routine(),
            }
        }
    }

    fn uses(&mut self) {
        self.nl();
        self.kw("uses");
        let n = 1 + self.t.below(4);
        let mut comma_done = false;
        for i in 0..n {
            if i > 0 && !comma_done {
                self.op(",");
            }
            comma_done = false;
            let wrap = self.opts.directives && i + 1 < n && self.t.chance(1, 6);
            let closer = if wrap { Some(self.cond_open()) } else { None };
            let u = *self.t.pick(&["SysUtils", "Classes", "System", "Generics", "MyUnit", "WinTypes"]);
            self.named(u);
            if self.t.chance(1, 4) {
                self.op(".");
                self.named("Collections");
            }
            if let Some(c) = closer {
                // the comma belongs to the conditional part: `A, {$IFDEF X} B, {$ENDIF} C;`
                self.op(",");
                self.directive(c);
                comma_done = true;
            }
        }
        self.op(";");
        self.tag("uses");
    }

    pub fn file(&mut self) {
        let kind = if self.opts.decl_heavy { 1 } else { self.t.weighted(&[6, 3, 4, 2, 1, 1]) };
        match kind {
            4 => {
                self.tag("file:package");
                self.nl();
                self.kw("package");
                self.fresh("Pkg");
                self.op(";");
                if self.opts.directives && self.t.chance(1, 2) {
                    self.compiler_directive();
                }
                if self.t.chance(2, 3) {
                    self.nl();
                    self.kw("requires");
                    self.named("rtl");
                    if self.t.chance(1, 2) {
                        self.op(",");
                        self.named("vcl");
                    }
                    self.op(";");
                }
                if self.t.chance(2, 3) {
                    self.nl();
                    self.kw("contains");
                    let n = 1 + self.t.below(3);
                    for i in 0..n {
                        if i > 0 {
                            self.op(",");
                        }
                        self.fresh("Unit");
                        if self.t.chance(1, 2) {
                            self.kw("in");
                            self.push("'Unit.pas'", Kind::Text);
                        }
                    }
                    self.op(";");
                }
                self.nl();
                self.kw("end");
                self.op(".");
            }
            5 => {
                self.tag("file:library");
                self.nl();
                self.kw("library");
                self.fresh("Lib");
                self.op(";");
                if self.t.chance(1, 2) {
                    self.uses();
                }
                self.decls(false);
                self.nl();
                self.kw("exports");
                let n = 1 + self.t.below(3);
                for i in 0..n {
                    if i > 0 {
                        self.op(",");
                    }
                    self.fresh("R");
                    match self.t.below(3) {
                        0 => {
                            self.kw("name");
                            self.push("'Exported'", Kind::Text);
                        }
                        1 => {
                            self.kw("index");
                            self.number();
                        }
                        _ => {}
                    }
                }
                self.op(";");
                self.nl();
                let b = self.kw("begin");
                self.stmt_list(b, "end");
                self.op(".");
            }
            0 => {
                // statement fragment
                self.tag("file:stmts");
                if self.t.chance(1, 12) {
                    // a deep nest of blocks (more than 8 levels) around a few statements
                    let d = 6 + self.t.below(10);
                    self.tag("deep-nest");
                    self.nested_blocks(d);
                    self.op(";");
                }
                let n = 1 + self.t.below(5);
                for _ in 0..n {
                    self.nl();
                    self.stmt(false);
                    self.op(";");
                }
            }
            1 => {
                self.tag("file:decls");
                self.decls(false);
                if self.p.toks.is_empty() {
                    self.const_section();
                }
            }
            2 => {
                self.tag("file:unit");
                self.nl();
                let k = self.kw("unit");
                self.mark_top(k);
                self.fresh("U");
                self.op(";");
                self.nl();
                let k = self.kw("interface");
                self.mark_top(k);
                if self.t.chance(1, 2) {
                    self.uses();
                }
                self.decls(true);
                self.nl();
                let k = self.kw("implementation");
                self.mark_top(k);
                if self.t.chance(1, 3) {
                    self.uses();
                }
                self.decls(false);
                if self.t.chance(1, 4) {
                    self.nl();
                    let i = self.kw("initialization");
                    self.mark_top(i);
                    self.depth += 1;
                    let n = 1 + self.t.below(2);
                    for _ in 0..n {
                        self.nl();
                        let first = self.p.toks.len() as u32;
                        self.stmt(false);
                        self.mark(first, i, 0);
                        self.op(";");
                    }
                    self.depth -= 1;
                    self.tag("initialization");
                }
                self.nl();
                let k = self.kw("end");
                self.mark_top(k);
                self.op(".");
            }
            _ => {
                self.tag("file:program");
                self.nl();
                self.kw("program");
                self.fresh("P");
                self.op(";");
                if self.t.chance(1, 2) {
                    self.uses();
                }
                self.decls(false);
                self.nl();
                let b = self.kw("begin");
                self.stmt_list(b, "end");
                self.op(".");
            }
        }
    }
}

pub fn gen_prog(t: &mut Tape, fuel: i32, opts: Opts) -> Prog {
    let mut b = B::new(t, fuel, opts);
    b.file();
    b.p
}
