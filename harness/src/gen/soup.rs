//! G-soup: token soup over a fixed alphabet (DESIGN §3.2), random and bounded-exhaustive.

use crate::engine::Tape;

/// The alphabet Σ. Chosen to reach every parser branch; order is fixed (indices are replayable).
pub const SIGMA: &[&str] = &[
    // structural keywords
    "begin", "end", "if", "then", "else", "case", "of", "try", "except", "finally", "repeat",
    "until", "for", "to", "in", "while", "do", "with", "on", "raise", "class", "record",
    "interface", "object", "implementation", "initialization", "finalization", "unit", "program",
    "library", "package", "uses", "requires", "contains", "exports", "type", "var", "const",
    "threadvar", "resourcestring", "label", "procedure", "function", "constructor", "destructor",
    "operator", "property", "asm", "inherited", "goto", "packed", "array", "set", "file", "helper",
    "strict", "private", "public", "reference", "abstract", "sealed",
    // directives of routines / properties
    "overload", "virtual", "external", "forward", "read", "write", "default", "index", "name",
    "at", "out", "absolute", "deprecated",
    // operators and brackets
    ";", ":", ":=", "=", ",", ".", "..", "(", ")", "[", "]", "<", ">", "^", "@", "+", "-", "*",
    "and", "not", "as", "is", "nil", "string",
    // operands
    "Foo", "&begin", "1", "1.5", "$FF", "'a'", "#13", "'unterminated",
    // comments and directives
    "// c\n", "{c}", "{$R+}", "{$ifdef A}", "{$if X}", "{$else}", "{$elseif Y}", "{$endif}",
    "// pasfmt off\n", "{ pasfmt on }", "'''\n  x\n  '''",
    // unknown and non-ASCII
    "!", "Ünï",
];

/// Render indices of Σ as text. A lexeme ending in a newline needs no separator.
pub fn render_indices(idx: &[usize], sep: &str) -> String {
    let mut s = String::new();
    for (i, k) in idx.iter().enumerate() {
        let lex = SIGMA[*k % SIGMA.len()];
        if i > 0 && !s.ends_with('\n') {
            s.push_str(sep);
        }
        s.push_str(lex);
    }
    s
}

/// Decode index -> sequence of length k (mixed radix, most significant first).
pub fn decode(mut index: u64, k: usize) -> Vec<usize> {
    let n = SIGMA.len() as u64;
    let mut v = vec![0usize; k];
    for i in (0..k).rev() {
        v[i] = (index % n) as usize;
        index /= n;
    }
    v
}

pub fn space_size(k: usize) -> u64 {
    (SIGMA.len() as u64).pow(k as u32)
}

const SEPS: &[&str] = &[" ", "\n", "", "  ", "\r\n", "\n\n\n", "\t", "\r", " \n  "];

/// Extra lexemes for random soup only.
const EXTRA: &[&str] = &[
    "downto", "dispinterface", "class of", "class function", "published", "protected",
    "automated", "static", "override", "reintroduce", "cdecl", "stdcall", "inline", "final",
    "message", "dispid", "stored", "nodefault", "implements", "readonly", "writeonly", "varargs",
    "platform", "experimental", "local", "export", "far", "near", "resident", "assembler",
    "register", "pascal", "safecall", "winapi", "unsafe", "delayed", "align", "dynamic", "<>",
    "<=", ">=", "/", "div", "mod", "shl", "shr", "or", "xor", "(.", ".)", "%101", "&7", "1e5",
    "1..2", "a.b", "T<U>", "TFoo<T: class, constructor>", "'it''s'", "#$0D#10", "''", "\"q\"",
    "(* c *)", "(*$R+*)", "{$ifndef B}", "{$ifopt C+}", "{$ifend}", "/// doc\n", "//====\n",
    "{ multi\n line }", "(* pasfmt off *)", "//pasfmt ON\n", "'''\nx\n'''", "'''''\n a\n '''''",
    "x:=1;", "if a then b else c;", "begin end;", "procedure P;", "function F: T;", "?", "\\",
    "\u{3000}", "\0", "中文", "&&x", "&", "#", "$", "%", "'", "{", "(*", "{$", "@@", "^^",
];

pub fn gen_soup(t: &mut Tape, max_tokens: u32) -> String {
    let n = t.below(max_tokens + 1);
    let mut s = String::new();
    // one dominant separator per case, with local deviations
    let main_sep = *t.pick(SEPS);
    for i in 0..n {
        if t.exhausted() {
            break;
        }
        let lex = if t.chance(1, 4) {
            *t.pick(EXTRA)
        } else {
            *t.pick(SIGMA)
        };
        if i > 0 {
            let sep = if t.chance(1, 5) { *t.pick(SEPS) } else { main_sep };
            s.push_str(sep);
        }
        s.push_str(lex);
    }
    s
}
