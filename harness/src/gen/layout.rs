//! G-layout / G-comment (DESIGN §3.4): rendering a token vector with generated gaps, inserting
//! comments, and re-layouts for the metamorphic properties.

use crate::engine::{Mark, Tape};
use crate::gen::prog::{PTok, Prog};
use crate::model::refscan::{self, Kind};

#[derive(Clone, Debug, PartialEq, Eq)]
pub struct Gap {
    /// number of line breaks in the gap (0 = same line)
    pub nl: u8,
    /// horizontal blanks after the last line break (or the whole gap when nl == 0)
    pub blanks: String,
    /// touches a comment / directive: kept byte-identical by re-layouts
    pub fixed: bool,
    /// blanks at the end of the previous line, before the first line break (only when nl > 0)
    pub trail: String,
}

/// May the two lexemes be written without any blank between them? Decided by re-scanning the
/// concatenation with the reference scanner: it must give back exactly the two lexemes.
pub fn can_touch(a: &PTok, b: &PTok) -> bool {
    if a.kind == Kind::CommentLine {
        return false;
    }
    // `0to`, `0ABSOLUTE`: lexically two tokens, but nobody writes it and the formatter keeps such
    // a zero-width gap as typed; not counted as a layout of well-formed code
    if a.kind == Kind::Number && matches!(b.kind, Kind::Ident | Kind::Keyword) {
        return false;
    }
    let s = format!("{}{}", a.text, b.text);
    let toks = refscan::scan(&s);
    toks.len() == 3
        && toks[0].end == a.text.len()
        && toks[1].start == a.text.len()
        && toks[1].end == s.len()
        && toks[0].kind == a.kind
        && toks[1].kind == b.kind
}

#[derive(Clone, Copy, PartialEq, Eq, Debug)]
pub enum Style {
    OneSpace,
    Pretty,
    Compact,
    Wild,
    /// like Pretty, but continuation lines (and often statements) start in the first column:
    /// two tokens separated by nothing but a line break
    Flush,
}

fn tightish(a: &PTok, b: &PTok) -> bool {
    // spots where a human would not put a space
    matches!(b.text.as_str(), ";" | "," | ")" | "]" | "." | "^" | "..")
        || matches!(a.text.as_str(), "(" | "[" | "." | "@" | "^" | "..")
        || (b.text == "(" && a.kind == Kind::Ident)
        || (b.text == "[" && a.kind == Kind::Ident)
}

const INDENT_BLANKS: &[&str] = &["", " ", "  ", "    ", "\t", "\t\t", "   ", "        ", " \t", "      "];
const MID_BLANKS: &[&str] = &[" ", "  ", "   ", "\t", " \t ", "     ", "\u{3000}", " \u{3000}", "\u{3000} "];

/// Gaps for all tokens (gaps[i] is the gap before token i) plus one trailing gap.
pub fn gen_layout(p: &Prog, t: &mut Tape, style: Style) -> Vec<Gap> {
    let n = p.toks.len();
    let mut gaps = Vec::with_capacity(n + 1);
    for i in 0..=n {
        let prev = if i > 0 { Some(&p.toks[i - 1]) } else { None };
        let cur = p.toks.get(i);
        let fixed = prev.is_some_and(|x| x.inserted) || cur.is_some_and(|x| x.inserted);
        let must_nl = prev.is_some_and(|x| x.kind == Kind::CommentLine);
        let touch_ok = match (prev, cur) {
            (Some(a), Some(b)) => can_touch(a, b),
            _ => true,
        };
        let line_start = cur.is_some_and(|x| x.line_start);
        let depth = cur.map_or(0, |x| x.depth as usize);
        let mut g = match (i, cur) {
            (0, _) => match style {
                Style::OneSpace | Style::Compact => Gap { nl: 0, blanks: String::new(), fixed, trail: String::new() },
                _ => {
                    if t.chance(1, 6) {
                        Gap { nl: t.below(3) as u8, blanks: t.pick_str(INDENT_BLANKS).to_string(), fixed, trail: String::new() }
                    } else {
                        Gap { nl: 0, blanks: String::new(), fixed, trail: String::new() }
                    }
                }
            },
            (_, None) => match style {
                Style::OneSpace => Gap { nl: 0, blanks: String::new(), fixed, trail: String::new() },
                _ => match t.below(5) {
                    0 => Gap { nl: 0, blanks: String::new(), fixed, trail: String::new() },
                    1 => Gap { nl: 2, blanks: String::new(), fixed, trail: String::new() },
                    2 => Gap { nl: 1, blanks: "  ".to_string(), fixed, trail: "  ".to_string() },
                    _ => Gap { nl: 1, blanks: String::new(), fixed, trail: String::new() },
                },
            },
            (_, Some(b)) => {
                let a = prev.unwrap();
                match style {
                    Style::OneSpace => Gap { nl: 0, blanks: " ".to_string(), fixed, trail: String::new() },
                    Style::Compact => {
                        if touch_ok {
                            Gap { nl: 0, blanks: String::new(), fixed, trail: String::new() }
                        } else {
                            Gap { nl: 0, blanks: " ".to_string(), fixed, trail: String::new() }
                        }
                    }
                    Style::Pretty => {
                        if line_start {
                            let nl = if t.chance(1, 7) { 2 + t.below(2) as u8 } else { 1 };
                            let ind = if t.chance(1, 10) {
                                t.pick_str(INDENT_BLANKS).to_string()
                            } else {
                                "  ".repeat(depth)
                            };
                            Gap { nl, blanks: ind, fixed, trail: if t.chance(1, 12) { t.pick_str(&[" ", "   ", "\t", " \t"]).to_string() } else { String::new() } }
                        } else if t.chance(1, 24) {
                            // an extra line break in the middle of a statement
                            Gap { nl: 1, blanks: "  ".repeat(depth + 2), fixed, trail: String::new() }
                        } else if touch_ok && tightish(a, b) {
                            Gap { nl: 0, blanks: String::new(), fixed, trail: String::new() }
                        } else {
                            Gap { nl: 0, blanks: " ".to_string(), fixed, trail: String::new() }
                        }
                    }
                    Style::Flush => {
                        if line_start {
                            let ind = if t.chance(1, 2) { String::new() } else { "  ".repeat(depth) };
                            Gap { nl: 1, blanks: ind, fixed, trail: String::new() }
                        } else if t.chance(1, 4) {
                            Gap { nl: 1, blanks: String::new(), fixed, trail: String::new() }
                        } else if touch_ok && tightish(a, b) {
                            Gap { nl: 0, blanks: String::new(), fixed, trail: String::new() }
                        } else {
                            Gap { nl: 0, blanks: " ".to_string(), fixed, trail: String::new() }
                        }
                    }
                    Style::Wild => match t.below(10) {
                        0 | 1 if touch_ok => Gap { nl: 0, blanks: String::new(), fixed, trail: String::new() },
                        0..=4 => Gap { nl: 0, blanks: t.pick_str(MID_BLANKS).to_string(), fixed, trail: String::new() },
                        5..=7 => Gap { nl: 1, blanks: t.pick_str(INDENT_BLANKS).to_string(), fixed, trail: if t.chance(1, 4) { t.pick_str(&[" ", "  ", "\t"]).to_string() } else { String::new() } },
                        8 if line_start => Gap {
                            nl: 2 + t.below(3) as u8,
                            blanks: t.pick_str(INDENT_BLANKS).to_string(),
                            fixed,
                            trail: if t.chance(1, 4) { "  ".to_string() } else { String::new() },
                        },
                        // blank lines in the middle of a statement
                        9 if !line_start && t.chance(1, 3) => {
                            Gap { nl: 2 + t.below(3) as u8, blanks: t.pick_str(INDENT_BLANKS).to_string(), fixed, trail: String::new() }
                        }
                        _ => Gap { nl: 0, blanks: " ".to_string(), fixed, trail: String::new() },
                    },
                }
            }
        };
        if let Some(fg) = cur.and_then(|x| x.fixed_gap.as_ref()) {
            let nl = fg.matches('\n').count() as u8;
            let blanks = fg.rsplit('\n').next().unwrap_or("").to_string();
            g = Gap { nl, blanks, fixed: true, trail: String::new() };
        }
        // (a `//` comment may be the last thing in the file, without a line break after it)
        if must_nl && g.nl == 0 && i < n {
            g.nl = 1;
            g.blanks = "  ".repeat(depth);
        }
        if must_nl || g.nl == 0 {
            // blanks after a line comment would belong to the comment
            g.trail.clear();
        }
        if i > 0 && i < n && g.nl == 0 && g.blanks.is_empty() && !touch_ok {
            g.blanks = " ".to_string();
        }
        gaps.push(g);
    }
    gaps
}

/// A second layout that differs only in free gaps: amount/kind of horizontal blanks,
/// indentation, space <-> single line break, zero width where allowed, and the number of line
/// breaks inside a blank-line group (2..4). Gaps touching comments/directives are kept.
pub fn relayout(p: &Prog, gaps: &[Gap], t: &mut Tape) -> Vec<Gap> {
    let n = p.toks.len();
    let style = *t.pick(&[Style::Wild, Style::Compact, Style::Pretty, Style::OneSpace, Style::Wild, Style::Flush]);
    let fresh = gen_layout(p, t, style);
    let mut out = Vec::with_capacity(n + 1);
    for i in 0..=n {
        let old = &gaps[i];
        if old.fixed {
            out.push(old.clone());
            continue;
        }
        let mut g = fresh[i].clone();
        let old_group = old.nl >= 2;
        if i > 0 && i < n {
            if old_group && g.nl < 2 {
                g.nl = 2 + (i % 3) as u8;
            } else if !old_group && g.nl >= 2 {
                g.nl = 1;
            }
        } else if i == n {
            // trailing gap: free
        }
        out.push(g);
    }
    out
}

pub fn render(p: &Prog, gaps: &[Gap]) -> String {
    let mut s = String::new();
    for (i, g) in gaps.iter().enumerate() {
        if g.nl > 0 {
            s.push_str(&g.trail);
        }
        for _ in 0..g.nl {
            s.push('\n');
        }
        s.push_str(&g.blanks);
        if let Some(tok) = p.toks.get(i) {
            s.push_str(&tok.text);
        }
    }
    s
}

/// How many free gaps differ between two layouts, and whether a newline <-> no-newline change is among them.
pub fn layout_diff(a: &[Gap], b: &[Gap]) -> (usize, bool) {
    let mut n = 0;
    let mut nl_change = false;
    for (x, y) in a.iter().zip(b) {
        if x != y {
            n += 1;
            if (x.nl == 0) != (y.nl == 0) {
                nl_change = true;
            }
        }
    }
    (n, nl_change)
}

#[derive(Clone, Copy, PartialEq, Eq, Debug)]
pub enum CommentPolicy {
    None,
    /// only own-line comments before line starts
    OwnLine,
    /// only trailing line comments at line ends and own-line comments before line starts
    LineEdges,
    /// as LineEdges plus `//` comments in the middle of statements (forced line breaks inside a
    /// logical line), but no inline block comments
    LineEdgesMid,
    /// additionally inline block comments and line comments in the middle of statements
    Anywhere,
}

const LINE_COMMENTS: &[&str] = &[
    "// comment", "//x", "//no space here", "/// doc comment", "///doc", "//", "// trailing   ",
    "//==============", "//------------------------", "// it's {a} (*b*) 'q'", "//\ttab", "// TODO: x := 1;",
    "//************", "///----------------", "///==========", "//   ", "///", "//\u{3000}x", "//- - - - - -", "//----------x",
];
const BLOCK_COMMENTS: &[&str] = &[
    "{c}", "{ comment }", "(* c *)", "(*c*)", "{}", "{ it's }", "(* { nested } *)",
    // the closing delimiter may not overlap the opening one
    "(*) x *)", "(**)", "(***)", "{*}", "(*)a,b  BEGIN*)", "{ (* }", "(* } *)",
];
const MULTI_COMMENTS: &[&str] = &["{ multi\n  line }", "(* a\n b\n c *)", "{\n}"];

fn comment_tok(text: &str, line_start: bool, depth: u16, in_anon: bool) -> PTok {
    let kind = if text.starts_with("//") { Kind::CommentLine } else { Kind::CommentBlock };
    PTok { text: text.to_string(), kind, line_start, depth, in_anon, inserted: true, fixed_gap: None }
}

/// Insert comments according to the policy; marks are remapped.
pub fn insert_comments(p: &Prog, t: &mut Tape, policy: CommentPolicy, density: u32) -> Prog {
    if policy == CommentPolicy::None {
        return p.clone();
    }
    let mut out = Prog { toks: Vec::with_capacity(p.toks.len() + 8), marks: vec![], tags: p.tags.clone() };
    let mut map = vec![0u32; p.toks.len()];
    for (i, tok) in p.toks.iter().enumerate() {
        // excluded by construction (open finding F-C14-comment-class-of): a comment that ends up
        // on its own line between `class` and `of` makes the parser open a class body
        // (the same happens between `class` and the `;` of a forward declaration)
        let class_of = i > 0
            && p.toks[i - 1].text.eq_ignore_ascii_case("class")
            && (tok.text.eq_ignore_ascii_case("of") || tok.text == ";");
        if i > 0 && !class_of && t.chance(1, density) {
            if tok.line_start {
                let pick = t.below(4);
                match if policy == CommentPolicy::OwnLine && pick == 0 { 1 } else { pick } {
                    0 => {
                        // trailing line comment at the end of the previous line
                        let c = t.pick_str(LINE_COMMENTS);
                        out.toks.push(comment_tok(c, false, tok.depth, tok.in_anon));
                        out.tags.insert("comment:trailing-line");
                        if t.chance(1, 3) {
                            // ... directly followed by a comment on the next line
                            let c = t.pick_str(&["// second", "{ block }", "//x", "(* c *)", "// a b c"]);
                            out.toks.push(comment_tok(c, true, tok.depth, tok.in_anon));
                            out.tags.insert("comment:consecutive");
                        }
                    }
                    1 => {
                        let c = t.pick_str(LINE_COMMENTS);
                        out.toks.push(comment_tok(c, true, tok.depth, tok.in_anon));
                        out.tags.insert("comment:own-line");
                        if t.chance(1, 4) {
                            let c = t.pick_str(&["// second", "{ block }", "//x", "(* c *)"]);
                            out.toks.push(comment_tok(c, true, tok.depth, tok.in_anon));
                            out.tags.insert("comment:consecutive");
                        }
                    }
                    2 => {
                        let c = t.pick_str(BLOCK_COMMENTS);
                        let mut ct = comment_tok(c, true, tok.depth, tok.in_anon);
                        ct.line_start = true;
                        out.toks.push(ct);
                        // the statement that follows must start its own line again
                        out.tags.insert("comment:own-line-block");
                    }
                    _ => {
                        let c = t.pick_str(MULTI_COMMENTS);
                        out.toks.push(comment_tok(c, true, tok.depth, tok.in_anon));
                        out.tags.insert("comment:multi-line");
                        if t.chance(1, 3) {
                            // a comment on the line on which the multi-line comment ends
                            let c = t.pick_str(&["// remark", "{ b }", "//x", "(* c *)"]);
                            out.toks.push(comment_tok(c, false, tok.depth, tok.in_anon));
                            out.tags.insert("comment:after-multi-line");
                        }
                    }
                }
            } else if policy == CommentPolicy::LineEdgesMid {
                if t.chance(1, 3) {
                    let c = t.pick_str(&LINE_COMMENTS[..5]);
                    out.toks.push(comment_tok(c, false, tok.depth, tok.in_anon));
                    out.tags.insert("comment:mid-statement-line");
                }
            } else if policy == CommentPolicy::Anywhere {
                if t.chance(2, 3) {
                    let c = t.pick_str(BLOCK_COMMENTS);
                    out.toks.push(comment_tok(c, false, tok.depth, tok.in_anon));
                    out.tags.insert("comment:inline-block");
                    if t.chance(1, 4) {
                        // two comments in a row in one gap
                        let c = t.pick_str(&["{second comment}", "(* and another one *)", "{b}"]);
                        out.toks.push(comment_tok(c, false, tok.depth, tok.in_anon));
                        out.tags.insert("comment:two-in-a-row");
                    }
                } else {
                    let c = t.pick_str(LINE_COMMENTS);
                    out.toks.push(comment_tok(c, false, tok.depth, tok.in_anon));
                    out.tags.insert("comment:mid-statement-line");
                }
            }
        }
        map[i] = out.toks.len() as u32;
        out.toks.push(tok.clone());
    }
    for m in &p.marks {
        out.marks.push(Mark { tok: map[m.tok as usize], anchor: map[m.anchor as usize], role: m.role });
    }
    out
}

/// For own-line comments the layout must put a line break after block comments that were
/// inserted as own-line comments; `gen_layout` handles line comments (mandatory break). This
/// fixes up the gap after own-line block / multi-line comments so they really stand alone.
pub fn own_line_fixup(p: &Prog, gaps: &mut [Gap]) {
    for i in 0..p.toks.len() {
        let tok = &p.toks[i];
        if tok.inserted && tok.line_start {
            if gaps[i].nl == 0 && i > 0 {
                gaps[i].nl = 1;
                gaps[i].blanks = "  ".repeat(tok.depth as usize);
            }
            if i + 1 < p.toks.len() && p.toks[i + 1].line_start && gaps[i + 1].nl == 0 {
                gaps[i + 1].nl = 1;
                gaps[i + 1].blanks = "  ".repeat(p.toks[i + 1].depth as usize);
            }
        }
    }
}
