//! G-mlstr: multi-line string literals (DESIGN §3.7).

use crate::engine::Tape;

const LINE_TEXT: &[&str] = &[
    "a", "hello world", "SELECT * FROM t", "x  ", "it's", "''", "\"q\"", "  indented more", "{", "// no comment",
    "end;", "tab\there", "trailing   ", "(*", "#13",
];
const LINE_TEXT_NONASCII: &[&str] = &["héllo", "日本語", "ß\u{3000}x"];

/// A valid literal as source text: every interior line starts with the closing line's
/// indentation or is empty. LF line endings (the layout pass converts them).
pub fn gen_valid_literal(t: &mut Tape, ascii_only: bool) -> String {
    let q = match t.below(10) {
        0 => 5,
        1 => 7,
        2 => *t.pick(&[9, 11, 13, 21]),
        _ => 3,
    };
    let quotes = "'".repeat(q);
    let indent = if t.chance(1, 6) { " ".repeat(20 + t.below(45) as usize) } else { " ".repeat(t.below(9) as usize) };
    let n = t.below(4);
    let mut s = String::new();
    s.push_str(&quotes);
    s.push('\n');
    for _ in 0..n {
        if t.chance(1, 6) {
            // empty line
            s.push('\n');
            continue;
        }
        s.push_str(&indent);
        let txt = if !ascii_only && t.chance(1, 8) {
            t.pick_str(LINE_TEXT_NONASCII)
        } else {
            t.pick_str(LINE_TEXT)
        };
        s.push_str(txt);
        if q > 3 && t.chance(1, 4) {
            s.push_str(" ''' inner");
        }
        s.push('\n');
    }
    s.push_str(&indent);
    s.push_str(&quotes);
    s
}

/// Description of a generated literal for C12.
#[derive(Clone, Debug)]
pub struct Lit {
    pub text: String,
    /// "valid", "invalid", "ambiguous"
    pub class: &'static str,
}

const INDENTS: &[&str] = &[
    "", " ", "  ", "    ", "\t", "\t\t", "  \t", "      ", "\u{3000}", " \u{b}", "\u{c}",
    // exotic and ASCII blanks mixed in either order
    "\u{3000} ", "\u{3000}\t ", " \u{3000} ", "\u{3000}\u{3000}  ", "\t\u{3000}",
];
const ENDINGS: &[&str] = &["\n", "\r\n", "\r"];

/// The full G-mlstr: quote runs 3/5/7, interior endings LF/CR/CRLF/mixed, closing-line indentation
/// from spaces/tabs/mixed/U+3000/VT/FF, blank / short / over-indented lines, trailing blanks;
/// invalid variants (a line not starting with the indentation, text before the closing quotes)
/// and ambiguous ones (whitespace-only line that is neither empty nor a prefix).
pub fn gen_literal(t: &mut Tape) -> Lit {
    let q = match t.below(8) {
        0 => 5,
        1 => 7,
        2 => *t.pick(&[9, 11, 13, 21]),
        _ => 3,
    };
    let quotes = "'".repeat(q);
    let indent = if t.chance(1, 6) {
        // written far deeper than it will end up
        " ".repeat(20 + t.below(45) as usize)
    } else if t.chance(1, 2) {
        " ".repeat(t.below(10) as usize)
    } else {
        t.pick_str(INDENTS).to_string()
    };
    let mixed_endings = t.chance(1, 4);
    let main_ending = *t.pick(ENDINGS);
    let ending = |t: &mut Tape| -> &'static str {
        if mixed_endings {
            *t.pick(ENDINGS)
        } else {
            main_ending
        }
    };
    let class = match t.below(10) {
        0 => "invalid",
        1 => "ambiguous",
        _ => "valid",
    };
    let n = 1 + t.below(5);
    let bad_line = t.below(n);
    let mut s = String::new();
    s.push_str(&quotes);
    s.push_str(ending(t));
    for i in 0..n {
        let is_bad = i == bad_line;
        if class == "invalid" && is_bad && !indent.is_empty() {
            // a line that does not start with the indentation: one char of the indentation dropped
            // or replaced, followed by text
            if t.chance(1, 2) {
                let mut it = indent.chars();
                it.next();
                s.push_str(it.as_str());
            } else {
                s.push_str(if indent.starts_with(' ') { "\t" } else { " " });
            }
            s.push_str("x");
            s.push_str(ending(t));
            continue;
        }
        if class == "ambiguous" && is_bad && !indent.is_empty() {
            // whitespace-only line, not empty and not a prefix of the indentation
            s.push_str(if indent.starts_with(' ') { "\t" } else { " " });
            s.push_str(ending(t));
            continue;
        }
        match t.below(8) {
            0 => {
                // empty line
            }
            1 if !indent.is_empty() => {
                // strict prefix of the indentation
                let mut e = t.below(indent.len() as u32) as usize;
                while !indent.is_char_boundary(e) {
                    e -= 1;
                }
                s.push_str(&indent[..e]);
            }
            2 => {
                // over-indented whitespace-only line (value = the extra blanks)
                s.push_str(&indent);
                s.push_str(t.pick_str(&["  ", "\t", " \t "]));
            }
            _ => {
                s.push_str(&indent);
                if t.chance(1, 5) {
                    s.push_str("   ");
                }
                s.push_str(t.pick_str(LINE_TEXT));
                if q > 3 && t.chance(1, 5) {
                    s.push_str(" ''' in");
                }
            }
        }
        s.push_str(ending(t));
    }
    s.push_str(&indent);
    if class == "invalid" && indent.is_empty() {
        // text before the closing quotes
        s.push_str("x ");
    }
    s.push_str(&quotes);
    let class = if class != "valid" && indent.is_empty() && class == "ambiguous" { "valid" } else { class };
    Lit { text: s, class }
}
