//! G-mlstr: multi-line string literals (DESIGN §3.7).

use crate::engine::Tape;

const LINE_TEXT: &[&str] = &[
    "a", "hello world", "SELECT * FROM t", "x  ", "it's", "''", "\"q\"", "  indented more", "{", "// no comment",
    "end;", "tab\there", "trailing   ", "(*", "#13",
];
const LINE_TEXT_NONASCII: &[&str] = &["héllo", "日本語", "ß\u{3000}x"];

/// A valid literal as source text: every interior line starts with the closing line's
/// indentation or is empty. LF line endings (the layout pass converts them).
pub fn gen_valid_literal(t: &mut Tape, ascii_only: bool) -> String {
    let q = match t.below(8) {
        0 => 5,
        1 => 7,
        _ => 3,
    };
    let quotes = "'".repeat(q);
    let indent = " ".repeat(t.below(9) as usize);
    let n = t.below(4);
    let mut s = String::new();
    s.push_str(&quotes);
    s.push('\n');
    for _ in 0..n {
        if t.chance(1, 6) {
            // empty line
            s.push('\n');
            continue;
        }
        s.push_str(&indent);
        let txt = if !ascii_only && t.chance(1, 8) {
            t.pick_str(LINE_TEXT_NONASCII)
        } else {
            t.pick_str(LINE_TEXT)
        };
        s.push_str(txt);
        if q > 3 && t.chance(1, 4) {
            s.push_str(" ''' inner");
        }
        s.push('\n');
    }
    s.push_str(&indent);
    s.push_str(&quotes);
    s
}
