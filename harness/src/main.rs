use std::process::{exit, Command};

use vf::engine::parent::{exe_path, hb_case, run_prop, run_with_timeout, ChildEnd};
use vf::engine::worker::*;
use vf::engine::*;
use vf::props;

fn usage() -> ! {
    eprintln!("usage: vf <Cnn> <quick|thorough> | vf replay <file> | vf list");
    exit(2)
}

fn parse_cfg(args: &[String]) -> Cfg {
    let mut cfg = Cfg::default();
    for a in args {
        if let Some((k, v)) = a.split_once('=') {
            match k {
                "wrap_column" => cfg.wrap_column = v.parse().unwrap(),
                "begin_style" => cfg.begin_always_wrap = v == "always_wrap",
                "format_multiline_strings" => cfg.format_multiline_strings = v == "true",
                "use_tabs" => cfg.use_tabs = v == "true",
                "tab_width" => cfg.tab_width = v.parse().unwrap(),
                "continuation_indents" => cfg.continuation_indents = v.parse().unwrap(),
                "line_ending" => cfg.crlf = v == "crlf",
                _ => {}
            }
        }
    }
    cfg
}

fn seed_env() -> u64 {
    std::env::var("VERIF_SEED")
        .ok()
        .and_then(|s| s.trim().parse::<i64>().ok())
        .map(|v| v as u64)
        .unwrap_or(1)
}

fn main() {
    let args: Vec<String> = std::env::args().skip(1).collect();
    if args.is_empty() {
        usage();
    }
    logcap::install();
    install_panic_hook();
    match args[0].as_str() {
        "fmt" => {
            // fmt [key=value ...] < input : format stdin with a configuration, print output + time
            use std::io::Read;
            let mut input = String::new();
            std::io::stdin().read_to_string(&mut input).unwrap();
            let cfg = parse_cfg(&args[1..]);
            let t0 = std::time::Instant::now();
            let out = format_with(&cfg, &input);
            let dt = t0.elapsed();
            print!("{out}");
            eprintln!("[{} bytes in, {} bytes out, {:?}, logs: {:?}]", input.len(), out.len(), dt, logcap::take());
        }
        "sample" => {
            // sample <prop> <stream> <n> [tape_max]: print generated cases (debugging aid)
            use proptest::strategy::{Strategy, ValueTree};
            let prop = props::by_id(&args[1]).unwrap_or_else(|| usage());
            let n: usize = args[3].parse().unwrap_or(3);
            let tape_max: usize = args.get(4).and_then(|s| s.parse().ok()).unwrap_or(400);
            let mut runner = proptest::test_runner::TestRunner::new(proptest::test_runner::Config {
                rng_seed: proptest::test_runner::RngSeed::Fixed(seed_env()),
                failure_persistence: None,
                ..Default::default()
            });
            let strat = proptest::collection::vec(proptest::num::u8::ANY, 0..=tape_max);
            let mut shown = 0;
            let mut tries = 0;
            while shown < n && tries < 10000 {
                tries += 1;
                let tape = strat.new_tree(&mut runner).unwrap().current();
                let mut t = Tape::new(&tape);
                if let Some(c) = prop.generate(&args[2], &mut t) {
                    shown += 1;
                    println!("=== case {shown} (tape {} bytes) cfg: {}", tape.len(), c.cfg.to_toml().replace('\n', "; "));
                    println!("{}", c.input);
                    if let Some(i2) = &c.input2 {
                        println!("--- input2\n{i2}");
                    }
                    if std::env::var("VERIF_SHOW_OUT").is_ok() {
                        println!("--- formatted\n{}", format_with(&c.cfg, &c.input));
                    }
                    let mut ctx = Ctx::default();
                    match eval(prop, &c, &mut ctx) {
                        Outcome::Fail(f) => println!("--- FAIL [{}] {}", f.clause, f.message),
                        Outcome::Discard(w) => println!("--- DISCARD {w}"),
                        Outcome::Pass { nontrivial } => println!("--- pass nontrivial={nontrivial}"),
                    }
                }
            }
            println!("({tries} tapes tried)");
        }
        "mkcase" => {
            // mkcase <prop> <clause> <outfile> [key=value ...] [tag:<t> ...] [cursor:<n> ...] < input
            // writes a replay file for a well-formed case (annotation = the reference scan)
            use std::io::Read;
            let mut input = String::new();
            std::io::stdin().read_to_string(&mut input).unwrap();
            let cfg = parse_cfg(&args[4..]);
            let toks = vf::model::refscan::scan(&input);
            let mut c = Case::text("handmade", input.clone(), cfg);
            c.ann = Some(Ann {
                lexemes: toks[..toks.len() - 1].iter().map(|x| x.text(&input).to_string()).collect(),
                kinds: toks[..toks.len() - 1].iter().map(|x| x.kind as u8).collect(),
                marks: vec![],
                tags: vec![],
            });
            c.tags = args[4..].iter().filter_map(|a| a.strip_prefix("tag:")).map(|s| s.to_string()).collect();
            c.cursors = args[4..].iter().filter_map(|a| a.strip_prefix("cursor:")).filter_map(|s| s.parse().ok()).collect();
            let rep = Replay {
                property: args[1].clone(),
                clause: args[2].clone(),
                message: "hand-made case (see known_findings.json)".into(),
                facts: vec![format!("clause:{}", args[2])],
                case: c,
                input_hex: String::new(),
                tape_hex: String::new(),
                stream: String::new(),
                seed: 0,
                tier: String::new(),
                shrunk: true,
            };
            std::fs::write(&args[3], serde_json::to_string_pretty(&rep).unwrap()).unwrap();
        }
        "fuzz-artifact" => {
            // fuzz-artifact <text|prog> <prop> <file>: re-evaluate a libFuzzer artifact in the normal build
            let prop = props::by_id(&args[2]).unwrap_or_else(|| usage());
            let data = std::fs::read(&args[3]).unwrap_or_default();
            let case = if args[1] == "text" { vf::fuzz::decode_text(&data, prop.id()) } else { vf::fuzz::decode_prog(&data, prop) };
            let Some(case) = case else { exit(0) };
            let mut ctx = Ctx::default();
            match eval(prop, &case, &mut ctx) {
                Outcome::Fail(f) => {
                    let fnd = findings::Findings::load();
                    if let Some(k) = fnd.matching(prop.id(), &f.facts) {
                        println!("artifact {} matches known finding {}", args[3], k.id);
                        exit(0);
                    }
                    let p = write_replay(prop.id(), &case, &f, Some(&data), "fuzz", 0, Tier::Thorough, false);
                    println!("VIOLATION property={} replay={}", prop.id(), p);
                    println!("  [{}] {}", f.clause, short(&f.message, 500));
                    exit(1)
                }
                _ => {
                    println!("artifact {} does not fail in the normal build (sanitizer-only finding?)", args[3]);
                    exit(3)
                }
            }
        }
        "fuzz-seed-corpus" => {
            // fuzz-seed-corpus <text|prog> <dir>: a few small valid inputs from the repository's tests
            std::fs::create_dir_all(&args[2]).unwrap();
            if args[1] == "text" {
                for (i, (_, text)) in vf::gen::seeds::texts().iter().enumerate().filter(|(i, _)| i % 40 == 0) {
                    let mut v = vec![0u8; 8];
                    v.extend_from_slice(text.as_bytes());
                    v.truncate(1000);
                    std::fs::write(format!("{}/seed{i}", args[2]), v).unwrap();
                }
            } else {
                for i in 0..24u32 {
                    let v: Vec<u8> = (0..400u32).map(|k| ((k * 2654435761u32.wrapping_mul(i + 1)) >> 13) as u8).collect();
                    std::fs::write(format!("{}/tape{i}", args[2]), v).unwrap();
                }
            }
        }
        "fuzz-evidence" => {
            // fuzz-evidence <prop> <target> <executed units> <seconds> <crashes>: merge campaign numbers into the evidence file
            let path = format!("{}/evidence/{}.json", findings::root(), args[1]);
            let mut ev: serde_json::Value = serde_json::from_str(&std::fs::read_to_string(&path).unwrap_or_default()).unwrap_or(serde_json::json!({}));
            let units: u64 = args[3].parse().unwrap_or(0);
            if let Some(cov) = ev.get_mut("coverage") {
                cov["libfuzzer"] = serde_json::json!({
                    "target": args[2], "executed_units": units, "seconds": args[4].parse::<f64>().unwrap_or(0.0),
                    "artifacts": args[5].parse::<u64>().unwrap_or(0),
                    "note": "coverage-guided campaign (libFuzzer, ASan, debug assertions) with the property's oracle inside the target; a wall-clock budget, so inconclusive beyond the executed units"
                });
                let e = cov["evaluations"].as_u64().unwrap_or(0);
                cov["evaluations"] = serde_json::json!(e + units);
            }
            std::fs::write(&path, serde_json::to_string_pretty(&ev).unwrap()).unwrap();
        }
        "fuzz-corpus" => {
            // fuzz-corpus <text|prog> <dir>: run the in-target oracle over saved inputs (timing / replay aid)
            std::env::set_var("VERIF_FUZZ_PROP", args.get(3).cloned().unwrap_or_else(|| "C01".into()));
            let mut n = 0;
            let t0 = std::time::Instant::now();
            let mut slowest = (std::time::Duration::ZERO, String::new());
            for e in std::fs::read_dir(&args[2]).unwrap().flatten() {
                let data = std::fs::read(e.path()).unwrap();
                let t1 = std::time::Instant::now();
                if args[1] == "text" {
                    vf::fuzz::text_target(&data);
                } else {
                    vf::fuzz::prog_target(&data);
                }
                let d = t1.elapsed();
                if d > slowest.0 {
                    slowest = (d, e.path().to_string_lossy().to_string());
                }
                n += 1;
            }
            println!("{n} inputs in {:?}; slowest {:?} {}", t0.elapsed(), slowest.0, slowest.1);
        }
        "list" => {
            for p in props::all() {
                println!("{}", p.id());
            }
        }
        "worker" => {
            // worker <prop> <tier> <seed> <stream> <shard> <skip> <outdir> [files...]
            if args.len() < 8 {
                usage();
            }
            let prop = props::by_id(&args[1]).unwrap_or_else(|| usage());
            let wa = WorkerArgs {
                tier: Tier::parse(&args[2]).unwrap_or_else(|| usage()),
                seed: args[3].parse().unwrap_or(1),
                stream: args[4].clone(),
                shard: args[5].parse().unwrap_or(0),
                skip: args[6].parse().unwrap_or(0),
                outdir: args[7].clone(),
                files: args[8..].to_vec(),
            };
            let mut r = Runner::new(prop, &wa);
            r.run();
            r.finish();
            exit(0);
        }
        "hb-check" => {
            // hb-check <prop> <tier> <stream> <hbfile>: evaluate the case a dead worker was running
            let prop = props::by_id(&args[1]).unwrap_or_else(|| usage());
            let Some((case, tape)) = hb_case(prop, &args[3], &args[4]) else {
                exit(0)
            };
            let mut ctx = Ctx::default();
            match eval(prop, &case, &mut ctx) {
                Outcome::Fail(f) => {
                    let tier = Tier::parse(&args[2]).unwrap_or(Tier::Quick);
                    let p = write_replay(prop.id(), &case, &f, Some(&tape), &args[3], 0, tier, false);
                    println!("{p}");
                    exit(1)
                }
                _ => exit(0),
            }
        }
        "replay" => {
            if args.len() < 2 {
                usage();
            }
            let raw = args.iter().any(|a| a == "--raw");
            let rep = load_replay(&args[1]).unwrap_or_else(|e| {
                eprintln!("cannot load {}: {e}", args[1]);
                exit(2)
            });
            let prop = props::by_id(&rep.property).unwrap_or_else(|| usage());
            if raw {
                // evaluate in this process; exit 1 = the oracle fails on this case
                let mut ctx = Ctx::default();
                match eval(prop, &rep.case, &mut ctx) {
                    Outcome::Fail(f) => {
                        println!("FAIL [{}] {}", f.clause, f.message);
                        println!("FACTS {}", f.facts.join("|"));
                        exit(1)
                    }
                    Outcome::Discard(w) => {
                        println!("DISCARD {w}");
                        exit(0)
                    }
                    Outcome::Pass { .. } => exit(0),
                }
            }
            // guarded replay: run the raw replay in a child so a hang or abort is observable
            let mut cmd = Command::new(exe_path(false));
            cmd.arg("replay").arg(&args[1]).arg("--raw");
            let (end, out) = run_with_timeout(&mut cmd, 120);
            let findings = findings::Findings::load();
            let (failed, facts): (bool, Vec<String>) = match end {
                ChildEnd::Exit(0) => (false, vec![]),
                ChildEnd::Exit(1) => {
                    let facts = out
                        .lines()
                        .find_map(|l| l.strip_prefix("FACTS "))
                        .map(|l| l.split('|').map(|s| s.to_string()).collect())
                        .unwrap_or_default();
                    print!("{out}");
                    (true, facts)
                }
                ChildEnd::Timeout => {
                    let mut f = vec!["clause:hang".to_string(), "hang".to_string()];
                    f.extend(prop.crash_facts(&rep.case));
                    println!("FAIL [hang] no result within 120 s");
                    (true, f)
                }
                ChildEnd::Signal(s) => {
                    let mut f = vec![
                        "clause:abort".to_string(),
                        "abort".to_string(),
                        format!("signal:{s}"),
                    ];
                    f.extend(prop.crash_facts(&rep.case));
                    println!("FAIL [abort] process died with signal {s}");
                    (true, f)
                }
                ChildEnd::Exit(c) => {
                    eprintln!("replay child exited with {c}");
                    exit(2)
                }
            };
            if !failed {
                println!("replay passes: property {} holds on this case", rep.property);
                exit(0);
            }
            if let Some(k) = findings.matching(prop.id(), &facts) {
                println!("KNOWN-FINDING: property={} {} [{}]", prop.id(), k.what, k.id);
                exit(0);
            }
            println!("VIOLATION property={} replay={}", prop.id(), args[1]);
            exit(1);
        }
        id => {
            let prop = props::by_id(id).unwrap_or_else(|| usage());
            let tier = args
                .get(1)
                .and_then(|s| Tier::parse(s))
                .or_else(|| std::env::var("VERIF_TIER").ok().and_then(|s| Tier::parse(&s)))
                .unwrap_or(Tier::Quick);
            exit(run_prop(prop, tier, seed_env()));
        }
    }
}
