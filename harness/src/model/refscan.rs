//! refscan: an independent, character-by-character Delphi scanner (DESIGN Appendix B), used as the
//! reference in C02/C13 and as a precondition filter elsewhere. Coarse kinds only.

use super::nonblank::is_blank;

#[derive(Clone, Copy, PartialEq, Eq, Debug, Hash)]
#[repr(u8)]
pub enum Kind {
    Ident = 0,
    Keyword = 1,
    Number = 2,
    Text = 3,
    TextMulti = 4,
    TextUnterminated = 5,
    CommentLine = 6,
    CommentBlock = 7,
    DirectiveCond = 8,
    DirectiveCompiler = 9,
    Op = 10,
    Unknown = 11,
    Eof = 12,
}

impl Kind {
    pub fn from_u8(v: u8) -> Kind {
        match v {
            0 => Kind::Ident,
            1 => Kind::Keyword,
            2 => Kind::Number,
            3 => Kind::Text,
            4 => Kind::TextMulti,
            5 => Kind::TextUnterminated,
            6 => Kind::CommentLine,
            7 => Kind::CommentBlock,
            8 => Kind::DirectiveCond,
            9 => Kind::DirectiveCompiler,
            10 => Kind::Op,
            11 => Kind::Unknown,
            _ => Kind::Eof,
        }
    }
    pub fn is_comment(&self) -> bool {
        matches!(self, Kind::CommentLine | Kind::CommentBlock)
    }
    pub fn is_directive(&self) -> bool {
        matches!(self, Kind::DirectiveCond | Kind::DirectiveCompiler)
    }
}

#[derive(Clone, Copy, Debug, PartialEq, Eq)]
pub struct Tok {
    /// start of the token's leading blanks
    pub ws_start: usize,
    pub start: usize,
    pub end: usize,
    pub kind: Kind,
    /// scanned in asm mode (between an `asm` keyword and the closing `end`, both exclusive)
    pub asm: bool,
}

impl Tok {
    pub fn text<'a>(&self, s: &'a str) -> &'a str {
        &s[self.start..self.end]
    }
}

pub use crate::props::c01::is_keyword;

fn is_ident_char(c: char) -> bool {
    c.is_ascii_alphanumeric() || c == '_' || (!c.is_ascii() && c != '\u{3000}')
}

struct Scanner<'a> {
    s: &'a str,
    b: &'a [u8],
    pos: usize,
    in_asm: bool,
    prev_real_is_dot: bool,
}

impl<'a> Scanner<'a> {
    fn peek(&self, off: usize) -> Option<u8> {
        self.b.get(self.pos + off).copied()
    }

    fn skip_blanks(&mut self) {
        while let Some(c) = self.s[self.pos..].chars().next() {
            if is_blank(c) {
                self.pos += c.len_utf8();
            } else {
                break;
            }
        }
    }

    fn eof_minus_trailing_blanks(&self) -> usize {
        let mut e = self.s.len();
        for c in self.s.chars().rev() {
            if is_blank(c) {
                e -= c.len_utf8();
            } else {
                break;
            }
        }
        e
    }

    fn word_end(&self, from: usize) -> usize {
        let mut e = from;
        for c in self.s[from..].chars() {
            if is_ident_char(c) {
                e += c.len_utf8();
            } else {
                break;
            }
        }
        e
    }

    fn run(&self, from: usize, f: impl Fn(u8) -> bool) -> usize {
        let mut e = from;
        while e < self.b.len() && f(self.b[e]) {
            e += 1;
        }
        e
    }

    /// rule 5, from the first digit (already known to be a digit) at `from`
    fn decimal(&self, from: usize) -> usize {
        let dig = |b: u8| b.is_ascii_digit() || b == b'_';
        let mut e = self.run(from, dig);
        if self.b.get(e) == Some(&b'.') && self.b.get(e + 1).is_some_and(|b| b.is_ascii_digit()) {
            e = self.run(e + 1, dig);
        }
        if matches!(self.b.get(e), Some(b'e' | b'E')) {
            e += 1;
            if matches!(self.b.get(e), Some(b'+' | b'-')) {
                e += 1;
            }
            if self.b.get(e).is_some_and(|b| b.is_ascii_digit()) {
                e = self.run(e, dig);
            }
        }
        e
    }

    fn hex(&self, from: usize) -> usize {
        self.run(from, |b| b.is_ascii_hexdigit() || b == b'_')
    }

    fn bin(&self, from: usize) -> usize {
        self.run(from, |b| b == b'0' || b == b'1' || b == b'_')
    }

    /// rule 4: text literal starting at `from` (a `'` or `#`). Returns (end, kind).
    fn text_literal(&self, from: usize) -> (usize, Kind) {
        let b = self.b;
        // multi-line?
        let q = self.run(from, |c| c == b'\'') - from;
        if q >= 3 && q % 2 == 1 && matches!(b.get(from + q), Some(b'\r' | b'\n')) {
            let body = from + q;
            let quotes = &b[from..body];
            let mut i = body;
            while i + q <= b.len() {
                if &b[i..i + q] == quotes {
                    return (i + q, Kind::TextMulti);
                }
                i += 1;
            }
            return (b.len(), Kind::TextUnterminated);
        }
        let mut p = from;
        loop {
            // '#' parts
            while b.get(p) == Some(&b'#') {
                p += 1;
                match b.get(p) {
                    Some(c) if c.is_ascii_digit() || *c == b'_' => {
                        p = self.run(p, |c| c.is_ascii_digit() || c == b'_');
                    }
                    Some(b'$') => {
                        let e = self.hex(p + 1);
                        if e == p + 1 {
                            return (p + 1, Kind::TextUnterminated);
                        }
                        p = e;
                    }
                    Some(b'%') => {
                        let e = self.bin(p + 1);
                        if e == p + 1 {
                            return (p + 1, Kind::TextUnterminated);
                        }
                        p = e;
                    }
                    _ => return (p, Kind::TextUnterminated),
                }
            }
            // quoted part
            if b.get(p) != Some(&b'\'') {
                break;
            }
            p += 1;
            loop {
                match b.get(p) {
                    None => return (b.len(), Kind::TextUnterminated),
                    Some(b'\'') => {
                        p += 1;
                        break;
                    }
                    Some(b'\n' | b'\r') => return (p, Kind::TextUnterminated),
                    Some(_) => p += 1,
                }
            }
        }
        (p, Kind::Text)
    }

    fn block_end(&self, from: usize, paren: bool) -> Option<usize> {
        if paren {
            let mut i = from;
            while i + 1 < self.b.len() {
                if self.b[i] == b'*' && self.b[i + 1] == b')' {
                    return Some(i + 2);
                }
                i += 1;
            }
            None
        } else {
            self.b[from.min(self.b.len())..]
                .iter()
                .position(|c| *c == b'}')
                .map(|o| from + o + 1)
        }
    }

    /// Directive body from just after `{$` / `(*$`. Returns (conditional?, end or None).
    fn directive(&self, from: usize, paren: bool) -> (bool, Option<usize>) {
        let name_end = self.run(from, |c| c.is_ascii_alphanumeric() || c == b'_');
        let name = self.s[from..name_end].to_ascii_lowercase();
        let cond = matches!(
            name.as_str(),
            "if" | "ifdef" | "ifndef" | "ifopt" | "elseif" | "else" | "ifend" | "endif"
        );
        if name == "if" || name == "elseif" {
            (cond, self.directive_expr_end(name_end, paren))
        } else {
            (cond, self.block_end(name_end, paren))
        }
    }

    fn directive_expr_end(&self, from: usize, paren: bool) -> Option<usize> {
        let b = self.b;
        let mut p = from;
        loop {
            let c0 = b.get(p).copied();
            let c1 = b.get(p + 1).copied();
            let c2 = b.get(p + 2).copied();
            match (c0, c1, c2) {
                (Some(b'*'), Some(b')'), _) if paren => return Some(p + 2),
                (Some(b'}'), _, _) if !paren => return Some(p + 1),
                (Some(b'('), Some(b'*'), Some(b'$')) => {
                    p = self.directive(p + 3, true).1?;
                }
                (Some(b'{'), Some(b'$'), _) => {
                    p = self.directive(p + 2, false).1?;
                }
                (Some(b'('), Some(b'*'), _) => {
                    p = match self.block_end(p + 2, true) {
                        Some(e) => e,
                        None => self.eof_minus_trailing_blanks().max(p + 2),
                    };
                }
                (Some(b'{'), _, _) => {
                    p = match self.block_end(p + 1, false) {
                        Some(e) => e,
                        None => self.eof_minus_trailing_blanks().max(p + 1),
                    };
                }
                (Some(b'\''), _, _) => {
                    p = self.text_literal(p).0;
                }
                (Some(b'/'), Some(b'/'), _) => {
                    p = self.run(p + 2, |c| c != b'\n' && c != b'\r');
                }
                (None, _, _) => return None,
                _ => p += 1,
            }
        }
    }

    fn next(&mut self) -> Tok {
        let ws_start = self.pos;
        self.skip_blanks();
        let start = self.pos;
        let Some(c) = self.s[start..].chars().next() else {
            return Tok { ws_start, start, end: start, kind: Kind::Eof, asm: false };
        };
        let b = self.b;
        let was_asm = self.in_asm;
        let (end, kind): (usize, Kind) = match c {
            '/' if self.peek(1) == Some(b'/') => {
                (self.run(start + 2, |c| c != b'\n' && c != b'\r'), Kind::CommentLine)
            }
            '{' | '(' if c == '{' || self.peek(1) == Some(b'*') => {
                let paren = c == '(';
                let open = if paren { 2 } else { 1 };
                if b.get(start + open) == Some(&b'$') {
                    let (cond, end) = self.directive(start + open + 1, paren);
                    let k = if cond { Kind::DirectiveCond } else { Kind::DirectiveCompiler };
                    (end.unwrap_or_else(|| self.eof_minus_trailing_blanks().max(start + open + 1)), k)
                } else {
                    (
                        self.block_end(start + open, paren)
                            .unwrap_or_else(|| self.eof_minus_trailing_blanks().max(start + open)),
                        Kind::CommentBlock,
                    )
                }
            }
            '\'' | '#' => self.text_literal(start),
            '"' if self.in_asm => {
                let mut p = start + 1;
                let mut res = None;
                loop {
                    match b.get(p) {
                        Some(b'\\') => {
                            p += 1;
                            if p < b.len() {
                                // escaped char: one byte in the implementation; stay on a boundary
                                p += 1;
                                while !self.s.is_char_boundary(p) {
                                    p += 1;
                                }
                            }
                        }
                        Some(b'"') => {
                            res = Some((p + 1, Kind::Text));
                            break;
                        }
                        None | Some(b'\n' | b'\r') => break,
                        _ => p += 1,
                    }
                }
                res.unwrap_or((p, Kind::TextUnterminated))
            }
            '0'..='9' => {
                if self.in_asm {
                    let mut e = self.hex(start + 1);
                    if matches!(b.get(e), Some(b'o' | b'O' | b'h' | b'H')) {
                        e += 1;
                    }
                    (e, Kind::Number)
                } else {
                    (self.decimal(start), Kind::Number)
                }
            }
            '$' => (self.hex(start + 1), Kind::Number),
            '%' => (self.bin(start + 1), Kind::Number),
            '&' => {
                let amp_end = self.run(start, |c| c == b'&');
                match self.s[amp_end..].chars().next() {
                    Some('$') => (self.hex(amp_end + 1), Kind::Number),
                    Some('%') => (self.bin(amp_end + 1), Kind::Number),
                    Some(d) if d.is_ascii_digit() => (self.decimal(amp_end), Kind::Number),
                    Some(d) if is_ident_char(d) => (self.word_end(amp_end), Kind::Ident),
                    _ => (amp_end, Kind::Unknown),
                }
            }
            '@' if self.in_asm => (
                self.run(start + 1, |c| c.is_ascii_alphanumeric() || c == b'_' || c == b'@'),
                Kind::Ident,
            ),
            c if is_ident_char(c) => {
                let e = self.word_end(start);
                let w = &self.s[start..e];
                if self.in_asm {
                    if w.eq_ignore_ascii_case("end") {
                        self.in_asm = false;
                        (e, Kind::Keyword)
                    } else if w.eq_ignore_ascii_case("asm") {
                        (e, Kind::Keyword)
                    } else {
                        (e, Kind::Ident)
                    }
                } else if c.is_ascii_alphabetic() && !self.prev_real_is_dot && is_keyword(w) {
                    self.in_asm = w.eq_ignore_ascii_case("asm");
                    (e, Kind::Keyword)
                } else {
                    (e, Kind::Ident)
                }
            }
            ':' if self.peek(1) == Some(b'=') => (start + 2, Kind::Op),
            '<' if matches!(self.peek(1), Some(b'=' | b'>')) => (start + 2, Kind::Op),
            '>' if self.peek(1) == Some(b'=') => (start + 2, Kind::Op),
            '.' if matches!(self.peek(1), Some(b'.' | b')')) => (start + 2, Kind::Op),
            '(' if self.peek(1) == Some(b'.') => (start + 2, Kind::Op),
            '+' | '-' | '*' | '/' | '=' | '<' | '>' | '[' | ']' | '(' | ')' | '.' | ',' | ';' | ':'
            | '^' | '@' => (start + 1, Kind::Op),
            _ => (start + c.len_utf8().min(1).max(1), Kind::Unknown),
        };
        // unknown tokens are exactly one byte in the implementation; for ASCII that is one char
        let end = if kind == Kind::Unknown && !c.is_ascii() {
            start + c.len_utf8()
        } else {
            end
        };
        if !kind.is_comment() && !kind.is_directive() {
            self.prev_real_is_dot = kind == Kind::Op && &self.s[start..end] == ".";
        }
        self.pos = end;
        Tok { ws_start, start, end, kind, asm: was_asm && self.in_asm }
    }
}

/// Scan the whole text. The last token is always Eof (content empty, blanks = trailing blanks).
pub fn scan(s: &str) -> Vec<Tok> {
    let mut sc = Scanner {
        s,
        b: s.as_bytes(),
        pos: 0,
        in_asm: false,
        prev_real_is_dot: false,
    };
    let mut v = Vec::with_capacity(s.len() / 6 + 2);
    loop {
        let t = sc.next();
        let eof = t.kind == Kind::Eof;
        v.push(t);
        if eof {
            break;
        }
    }
    v
}

/// Coarse kind of a DelphiLexer token type.
pub fn coarse(t: pasfmt_core::prelude::RawTokenType) -> Kind {
    use pasfmt_core::prelude::CommentKind as CK;
    use pasfmt_core::prelude::RawTokenType as T;
    use pasfmt_core::prelude::TextLiteralKind as TL;
    match t {
        T::Op(_) => Kind::Op,
        T::Identifier => Kind::Ident,
        T::IdentifierOrKeyword(_) | T::Keyword(_) => Kind::Keyword,
        T::TextLiteral(TL::SingleLine | TL::Asm) => Kind::Text,
        T::TextLiteral(TL::MultiLine) => Kind::TextMulti,
        T::TextLiteral(TL::Unterminated) => Kind::TextUnterminated,
        T::NumberLiteral(_) => Kind::Number,
        T::ConditionalDirective(_) => Kind::DirectiveCond,
        T::CompilerDirective => Kind::DirectiveCompiler,
        T::Comment(CK::InlineLine | CK::IndividualLine) => Kind::CommentLine,
        T::Comment(_) => Kind::CommentBlock,
        T::Eof => Kind::Eof,
        T::Unknown => Kind::Unknown,
    }
}

/// Scan with the implementation's lexer into the same shape.
pub fn scan_impl(s: &str) -> Vec<Tok> {
    use pasfmt_core::prelude::*;
    let toks = DelphiLexer {}.lex(s);
    let mut v = Vec::with_capacity(toks.len());
    let mut pos = 0usize;
    for t in &toks {
        let ws = t.get_leading_whitespace().len();
        let len = t.get_content().len();
        v.push(Tok {
            ws_start: pos,
            start: pos + ws,
            end: pos + ws + len,
            kind: coarse(t.get_token_type()),
            asm: false,
        });
        pos += ws + len;
    }
    v
}
