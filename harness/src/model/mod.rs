pub mod nonblank;
pub mod refscan;
pub mod toggle;
