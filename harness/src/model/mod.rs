pub mod nonblank;
