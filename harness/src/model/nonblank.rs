//! The non-blank character sequence of a text (DESIGN §4): blank = code points <= U+0020 and
//! U+3000, exactly as the property statements define it.

#[inline]
pub fn is_blank(c: char) -> bool {
    c <= '\u{20}' || c == '\u{3000}'
}

/// (byte offset, char) of every non-blank character.
pub fn nonblank(s: &str) -> Vec<(usize, char)> {
    s.char_indices().filter(|(_, c)| !is_blank(*c)).collect()
}

pub fn nonblank_chars(s: &str) -> impl Iterator<Item = char> + '_ {
    s.chars().filter(|c| !is_blank(*c))
}
