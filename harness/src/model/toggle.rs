//! Toggle recogniser (DESIGN §4), written from the statement of C07: the toggle is recognised in
//! `//`, `{ }` and `(* *)` comments, case-insensitively, and only for the exact words on/off.

/// Some(true) = `pasfmt on`, Some(false) = `pasfmt off`, None = not a toggle comment.
pub fn parse_toggle(comment: &str) -> Option<bool> {
    let body = comment
        .strip_prefix("//")
        .or_else(|| comment.strip_prefix("(*"))
        .or_else(|| comment.strip_prefix('{'))?;
    let body = body.trim_start_matches(|c: char| c.is_ascii_whitespace());
    if body.len() < 6 || !body.is_char_boundary(6) || !body[..6].eq_ignore_ascii_case("pasfmt") {
        return None;
    }
    let rest = &body[6..];
    let rest2 = rest.trim_start_matches(|c: char| c.is_ascii_whitespace());
    if rest2.len() == rest.len() {
        return None; // at least one blank after `pasfmt`
    }
    let word: String = rest2.chars().take_while(|c| c.is_ascii_alphanumeric()).collect();
    if word.eq_ignore_ascii_case("on") {
        Some(true)
    } else if word.eq_ignore_ascii_case("off") {
        Some(false)
    } else {
        None
    }
}
