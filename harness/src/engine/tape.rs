//! The choice tape: the single source of generated choices (DESIGN §2.1).
//!
//! Every generator draws from a `Tape`. When the tape runs out every choice is 0, and every
//! production lists its simplest alternative first, so generation terminates and a smaller tape
//! means a structurally simpler case. proptest generates and shrinks the tape bytes.

pub struct Tape<'a> {
    data: &'a [u8],
    pos: usize,
    /// state of the stretch generator (0 = off): see `stretch`
    stretch: u64,
}

impl<'a> Tape<'a> {
    pub fn new(data: &'a [u8]) -> Self {
        Tape { data, pos: 0, stretch: 0 }
    }

    #[inline]
    pub fn byte(&mut self) -> u8 {
        let b = match self.data.get(self.pos) {
            Some(b) => *b,
            None if self.stretch != 0 => {
                // xorshift64*: a pure function of the tape's bytes
                let mut x = self.stretch;
                x ^= x >> 12;
                x ^= x << 25;
                x ^= x >> 27;
                self.stretch = x;
                (x.wrapping_mul(0x2545F4914F6CDD1D) >> 56) as u8
            }
            None => 0,
        };
        self.pos += 1;
        b
    }

    /// From here on, reads beyond the end of the tape no longer give 0 but a pseudo-random
    /// continuation derived from the tape's own bytes. Used for phases that need many small
    /// independent choices (the layout of a program that is already built), where an exhausted
    /// tape would otherwise always produce the same, simplest layout. The case stays a pure
    /// function of the tape; text-level shrinking takes care of minimising the layout.
    pub fn stretch(&mut self) {
        let mut h: u64 = 0xcbf29ce484222325;
        for b in self.data {
            h ^= *b as u64;
            h = h.wrapping_mul(0x100000001b3);
        }
        self.stretch = h | 1;
    }

    pub fn exhausted(&self) -> bool {
        self.pos >= self.data.len()
    }

    pub fn remaining(&self) -> usize {
        self.data.len().saturating_sub(self.pos)
    }

    pub fn consumed(&self) -> usize {
        self.pos.min(self.data.len())
    }

    /// Monotone map of one (n <= 256) or two tape cells onto 0..n. Cell value 0 gives 0.
    #[inline]
    pub fn below(&mut self, n: u32) -> u32 {
        if n <= 1 {
            0
        } else if n <= 256 {
            (self.byte() as u32 * n) >> 8
        } else {
            let v = ((self.byte() as u64) << 8) | self.byte() as u64;
            ((v * n as u64) >> 16) as u32
        }
    }

    /// lo..=hi
    pub fn range(&mut self, lo: u32, hi: u32) -> u32 {
        lo + self.below(hi - lo + 1)
    }

    /// True with probability num/den; false on an exhausted tape.
    #[inline]
    pub fn chance(&mut self, num: u32, den: u32) -> bool {
        let v = self.below(den);
        v >= den - num.min(den)
    }

    pub fn pick<'t, T>(&mut self, items: &'t [T]) -> &'t T {
        &items[self.below(items.len() as u32) as usize]
    }

    pub fn pick_str<'t>(&mut self, items: &[&'t str]) -> &'t str {
        items[self.below(items.len() as u32) as usize]
    }

    /// Index drawn with the given weights; index 0 must be the simplest alternative.
    pub fn weighted(&mut self, weights: &[u32]) -> usize {
        let total: u32 = weights.iter().sum();
        if total == 0 {
            return 0;
        }
        let mut v = self.below(total);
        for (i, w) in weights.iter().enumerate() {
            if v < *w {
                return i;
            }
            v -= *w;
        }
        weights.len() - 1
    }

    pub fn u32_full(&mut self) -> u32 {
        ((self.byte() as u32) << 24)
            | ((self.byte() as u32) << 16)
            | ((self.byte() as u32) << 8)
            | self.byte() as u32
    }
}
