//! Parent process: schedules worker processes, handles their deaths (hang / abort), merges
//! results, prints VIOLATION / KNOWN-FINDING lines, writes the evidence file.

use std::collections::{BTreeMap, HashSet};
use std::os::unix::process::ExitStatusExt;
use std::process::{Child, Command, Stdio};
use std::time::{Duration, Instant};

use super::findings::{root, Findings};
use super::worker::*;
use super::*;

pub fn exe_path(chk: bool) -> String {
    let me = std::env::current_exe().expect("current_exe");
    if chk {
        // /verif/target/release/vf -> /verif/target/relchk/vf
        let s = me.to_string_lossy().to_string();
        let alt = s.replace("/release/", "/relchk/");
        if alt != s && std::path::Path::new(&alt).exists() {
            return alt;
        }
    }
    me.to_string_lossy().to_string()
}

struct Job {
    stream: String,
    shard: u32,
    skip: u64,
    chk: bool,
    respawns: u32,
    files: Vec<String>,
}

struct Running {
    job: Job,
    child: Child,
}

pub enum ChildEnd {
    Exit(i32),
    Signal(i32),
    Timeout,
}

/// A child must not outlive this process (a killed run would otherwise leave hanging
/// candidates spinning, holding whatever file descriptors they inherited).
pub fn die_with_parent(cmd: &mut Command) {
    use std::os::unix::process::CommandExt;
    unsafe {
        cmd.pre_exec(|| {
            libc::prctl(libc::PR_SET_PDEATHSIG, libc::SIGKILL);
            Ok(())
        });
    }
}

pub fn run_with_timeout(cmd: &mut Command, secs: u64) -> (ChildEnd, String) {
    cmd.stdout(Stdio::piped()).stderr(Stdio::null());
    die_with_parent(cmd);
    let mut child = match cmd.spawn() {
        Ok(c) => c,
        Err(e) => {
            eprintln!("spawn failed: {e}");
            std::process::exit(2);
        }
    };
    let t0 = Instant::now();
    loop {
        match child.try_wait() {
            Ok(Some(st)) => {
                let mut out = String::new();
                if let Some(mut so) = child.stdout.take() {
                    use std::io::Read;
                    let _ = so.read_to_string(&mut out);
                }
                return (
                    match (st.code(), st.signal()) {
                        (Some(c), _) => ChildEnd::Exit(c),
                        (None, Some(s)) => ChildEnd::Signal(s),
                        _ => ChildEnd::Exit(2),
                    },
                    out,
                );
            }
            Ok(None) => {
                if t0.elapsed() > Duration::from_secs(secs) {
                    let _ = child.kill();
                    let _ = child.wait();
                    return (ChildEnd::Timeout, String::new());
                }
                std::thread::sleep(Duration::from_millis(20));
            }
            Err(_) => return (ChildEnd::Exit(2), String::new()),
        }
    }
}

fn spawn(job: &Job, prop: &str, tier: Tier, seed: u64, outdir: &str) -> Child {
    let log = std::fs::File::create(format!(
        "{outdir}/log_{}_{}_{}.txt",
        job.stream, job.shard, job.skip
    ))
    .expect("log file");
    let log2 = log.try_clone().expect("clone");
    let mut cmd = Command::new(exe_path(job.chk));
    cmd.arg("worker")
        .arg(prop)
        .arg(tier.name())
        .arg(seed.to_string())
        .arg(&job.stream)
        .arg(job.shard.to_string())
        .arg(job.skip.to_string())
        .arg(outdir)
        .args(&job.files)
        .env("VERIF_SCRATCH", format!("{outdir}/scratch"))
        .stdin(Stdio::null())
        .stdout(Stdio::from(log))
        .stderr(Stdio::from(log2));
    die_with_parent(&mut cmd);
    cmd.spawn().unwrap_or_else(|e| {
        eprintln!("cannot spawn worker: {e}");
        std::process::exit(2)
    })
}

pub struct Violation {
    pub replay: String,
    pub message: String,
    pub sig: String,
}

#[derive(Default)]
pub struct Merged {
    pub evaluations: u64,
    pub nontrivial_total: u64,
    pub distinct_nontrivial: u64,
    pub discards: BTreeMap<String, u64>,
    pub classes: BTreeMap<String, u64>,
    pub excluded_known: BTreeMap<String, u64>,
    pub samples: Vec<serde_json::Value>,
    pub slow_inconclusive: u64,
    pub shrink_evals: u64,
    pub duplicate_failures: u64,
    pub per_stream: BTreeMap<String, (u64, u64, u64)>,
    pub exhaustive_streams: Vec<String>,
}

pub fn run_prop(prop: &dyn Prop, tier: Tier, seed: u64) -> i32 {
    let t0 = Instant::now();
    let id = prop.id();
    let outdir = format!("{}/out/run/{}_{}_{}", root(), id, tier.name(), std::process::id());
    let _ = std::fs::remove_dir_all(&outdir);
    std::fs::create_dir_all(&outdir).expect("outdir");
    let findings = Findings::load();
    let mut violations: Vec<Violation> = vec![];
    let mut confirmed_by_kind: BTreeMap<&str, u32> = BTreeMap::new();
    let mut infra_errors: Vec<String> = vec![];
    let mut known_lines: Vec<String> = vec![];

    // 1. witnesses of open known findings
    for f in findings.open_for(id) {
        if f.witness.is_empty() {
            known_lines.push(format!("KNOWN-FINDING: property={} {} [{}]", id, f.what, f.id));
            continue;
        }
        let wpath = format!("{}/{}", root(), f.witness);
        let mut cmd = Command::new(exe_path(false));
        cmd.arg("replay").arg(&wpath).arg("--raw");
        let (end, _out) = run_with_timeout(&mut cmd, 200);
        match end {
            ChildEnd::Exit(1) => {
                known_lines.push(format!("KNOWN-FINDING: property={} {} [{}]", id, f.what, f.id))
            }
            ChildEnd::Exit(0) => {
                println!("note: known finding {} no longer reproduces on this tree", f.id)
            }
            // the witness of an abort / hang finding kills or stalls its replay process
            ChildEnd::Signal(_) | ChildEnd::Timeout => {
                known_lines.push(format!("KNOWN-FINDING: property={} {} [{}]", id, f.what, f.id))
            }
            _ => infra_errors.push(format!("witness replay of {} failed to run", f.id)),
        }
    }

    // 2. jobs
    let mut queue: Vec<Job> = vec![];
    let regress_dir = format!("{}/corpus/regress/{}", root(), id);
    if let Ok(rd) = std::fs::read_dir(&regress_dir) {
        let mut files: Vec<String> = rd
            .filter_map(|e| e.ok())
            .map(|e| e.path().to_string_lossy().to_string())
            .filter(|p| p.ends_with(".json"))
            .collect();
        files.sort();
        if !files.is_empty() {
            let any_chk = prop.streams(tier).iter().any(|s| s.chk_profile);
            if any_chk {
                queue.push(Job {
                    stream: "regress".into(),
                    shard: 1,
                    skip: 0,
                    chk: true,
                    respawns: 0,
                    files: files.clone(),
                });
            }
            queue.push(Job {
                stream: "regress".into(),
                shard: 0,
                skip: 0,
                chk: false,
                respawns: 0,
                files,
            });
        }
    }
    let mut streams = prop.streams(tier);
    if let Ok(only) = std::env::var("VERIF_STREAMS") {
        // debugging aid: run a subset of the streams
        let names: Vec<&str> = only.split(',').collect();
        streams.retain(|s| names.contains(&s.name));
    }
    let mut exhaustive_streams = vec![];
    for s in &streams {
        if let StreamKind::Exhaustive { size } = s.kind {
            exhaustive_streams.push(format!("{} ({} cases)", s.name, size));
        }
        for shard in 0..s.shards {
            queue.push(Job {
                stream: s.name.to_string(),
                shard,
                skip: 0,
                chk: s.chk_profile,
                respawns: 0,
                files: vec![],
            });
        }
    }
    queue.reverse();
    let par = std::thread::available_parallelism()
        .map(|n| n.get())
        .unwrap_or(8)
        .min(16);
    let mut running: Vec<Running> = vec![];
    let mut merged = Merged::default();
    let mut all_hashes: HashSet<u64> = HashSet::new();
    let mut by_construction: u64 = 0;
    let mut known_excluded_parent: BTreeMap<String, u64> = BTreeMap::new();

    while !queue.is_empty() || !running.is_empty() {
        while running.len() < par {
            let Some(job) = queue.pop() else { break };
            let child = spawn(&job, id, tier, seed, &outdir);
            running.push(Running { job, child });
        }
        let mut i = 0;
        let mut progressed = false;
        while i < running.len() {
            match running[i].child.try_wait() {
                Ok(Some(st)) => {
                    progressed = true;
                    let Running { job, .. } = running.swap_remove(i);
                    // collect result file, if any
                    let resp = format!(
                        "{outdir}/res_{}_{}_{}.json",
                        job.stream, job.shard, job.skip
                    );
                    let res: Option<WorkerResult> = std::fs::read(&resp)
                        .ok()
                        .and_then(|b| serde_json::from_slice(&b).ok());
                    let code = st.code();
                    let hbfile = format!("{outdir}/hb_{}_{}.bin", job.stream, job.shard);
                    let mut next_skip: Option<u64> = None;
                    match code {
                        Some(0) => {}
                        Some(2) | Some(101) => {
                            infra_errors.push(format!(
                                "worker {}#{} exited with an infrastructure error (see {outdir}/log_{}_{}_{}.txt)",
                                job.stream, job.shard, job.stream, job.shard, job.skip
                            ));
                        }
                        Some(EXIT_SLOW) => {
                            merged.slow_inconclusive += 1;
                            next_skip = hb_index(&hbfile).map(|x| x + 1);
                        }
                        _ => {
                            // hang suspect, or death by signal / unexpected exit code
                            let hang = code == Some(EXIT_HANG);
                            let idx = hb_index(&hbfile);
                            next_skip = idx.map(|x| x + 1);
                            // confirmations are expensive (up to 60 s): after two confirmed
                            // violations of the same kind, further deaths are counted only
                            let kind = if hang { "clause:hang" } else { "clause:abort" };
                            let already = *confirmed_by_kind.get(kind).unwrap_or(&0);
                            let verdict = if already >= 2 {
                                merged.duplicate_failures += 1;
                                Confirm::FailedNormally
                            } else {
                                confirm(prop, tier, &job.stream, &hbfile, hang, job.chk)
                            };
                            match verdict {
                                Confirm::Violation { replay, message, facts } => {
                                    if let Some(k) = findings.matching(id, &facts) {
                                        *known_excluded_parent.entry(k.id.clone()).or_insert(0) += 1;
                                    } else {
                                        *confirmed_by_kind.entry(kind).or_insert(0) += 1;
                                        let mut s = facts.clone();
                                        s.sort();
                                        let sig = s.join("|");
                                        if !violations.iter().any(|v| v.sig == sig) {
                                            violations.push(Violation { replay, message, sig });
                                        }
                                    }
                                }
                                Confirm::FailedNormally => {
                                    // the fresh process reported an ordinary failure; it wrote a replay
                                }
                                Confirm::NotReproduced => {
                                    if hang {
                                        merged.slow_inconclusive += 1;
                                    } else {
                                        infra_errors.push(format!(
                                            "worker {}#{} died ({:?}) but the case passes in a fresh process",
                                            job.stream, job.shard, st
                                        ));
                                    }
                                }
                            }
                        }
                    }
                    if let Some(r) = res {
                        merge_result(&mut merged, &job.stream, &r, &mut all_hashes, &mut by_construction);
                        for f in &r.failures {
                            if !violations.iter().any(|v| v.sig == f.sig) {
                                violations.push(Violation {
                                    replay: f.replay.clone(),
                                    message: format!("[{}] {}", f.clause, f.message),
                                    sig: f.sig.clone(),
                                });
                            }
                        }
                    } else if code == Some(0) {
                        infra_errors.push(format!("worker {}#{} left no result", job.stream, job.shard));
                    }
                    if let Some(skip) = next_skip {
                        // once hangs / aborts are established as violations, a shard that keeps
                        // dying is not worth more than a few further attempts
                        let established = confirmed_by_kind.values().any(|n| *n >= 2);
                        if job.respawns < if established { 2 } else { 8 } {
                            queue.push(Job {
                                stream: job.stream.clone(),
                                shard: job.shard,
                                skip,
                                chk: job.chk,
                                respawns: job.respawns + 1,
                                files: job.files.clone(),
                            });
                        }
                    }
                }
                Ok(None) => i += 1,
                Err(e) => {
                    infra_errors.push(format!("wait failed: {e}"));
                    running.swap_remove(i);
                }
            }
        }
        if !progressed {
            std::thread::sleep(Duration::from_millis(15));
        }
    }

    for (k, v) in known_excluded_parent {
        *merged.excluded_known.entry(k).or_insert(0) += v;
    }
    merged.distinct_nontrivial = all_hashes.len() as u64 + by_construction;
    merged.exhaustive_streams = exhaustive_streams;

    // 3. report
    for l in &known_lines {
        println!("{l}");
    }
    let wall = t0.elapsed().as_secs_f64();
    write_evidence(prop, tier, seed, &merged, violations.len(), wall, &streams);
    println!(
        "{} {}: evaluations={} distinct_nontrivial={} discards={:?} excluded_known={:?} slow_inconclusive={} wall={:.1}s",
        id,
        tier.name(),
        merged.evaluations,
        merged.distinct_nontrivial,
        merged.discards,
        merged.excluded_known,
        merged.slow_inconclusive,
        wall
    );
    if std::env::var("VERIF_CLASSES").is_ok() {
        for (k, v) in &merged.classes {
            println!("  class {k}: {v}");
        }
    }
    let keep = std::env::var("VERIF_KEEP").is_ok();
    if !infra_errors.is_empty() {
        for e in &infra_errors {
            eprintln!("ERROR: {e}");
        }
        return 2;
    }
    if !keep {
        let _ = std::fs::remove_dir_all(&outdir);
    }
    if violations.is_empty() {
        0
    } else {
        for v in violations.iter().take(10) {
            println!("VIOLATION property={} replay={}", id, v.replay);
            println!("  {}", short(&v.message, 600));
        }
        1
    }
}

fn merge_result(
    m: &mut Merged,
    stream: &str,
    r: &WorkerResult,
    hashes: &mut HashSet<u64>,
    by_construction: &mut u64,
) {
    m.evaluations += r.evaluations;
    m.nontrivial_total += r.nontrivial;
    let e = m.per_stream.entry(stream.to_string()).or_insert((0, 0, 0));
    e.0 += r.evaluations;
    e.1 += r.nontrivial;
    e.2 += r.wall_ms;
    for (k, v) in &r.discards {
        *m.discards.entry(k.clone()).or_insert(0) += v;
    }
    for (k, v) in &r.classes {
        *m.classes.entry(k.clone()).or_insert(0) += v;
    }
    for (k, v) in &r.excluded_known {
        *m.excluded_known.entry(k.clone()).or_insert(0) += v;
    }
    m.slow_inconclusive += r.slow_inconclusive;
    m.shrink_evals += r.shrink_evals;
    m.duplicate_failures += r.duplicate_failures;
    for s in &r.samples {
        if m.samples.len() < 10 {
            m.samples.push(s.clone());
        }
    }
    if r.distinct_by_construction {
        *by_construction += r.nontrivial;
    } else if let Ok(b) = std::fs::read(&r.hashes_path) {
        for c in b.chunks_exact(8) {
            hashes.insert(u64::from_le_bytes(c.try_into().unwrap()));
        }
    }
}

pub fn hb_index(path: &str) -> Option<u64> {
    let b = std::fs::read(path).ok()?;
    if b.len() < 13 {
        return None;
    }
    Some(u64::from_le_bytes(b[0..8].try_into().unwrap()))
}

/// Decode the case a worker was running from its heartbeat file.
pub fn hb_case(prop: &dyn Prop, stream: &str, path: &str) -> Option<(Case, Vec<u8>)> {
    let b = std::fs::read(path).ok()?;
    if b.len() < 13 {
        return None;
    }
    let kind = b[8];
    let len = u32::from_le_bytes(b[9..13].try_into().unwrap()) as usize;
    let payload = b.get(13..13 + len)?;
    match kind {
        1 => serde_json::from_slice::<Case>(payload)
            .ok()
            .map(|c| (c, vec![])),
        _ => {
            if stream == "regress" {
                return None;
            }
            // an 8-byte payload on an exhaustive stream is an index
            if let Some(c) = (payload.len() == 8)
                .then(|| prop.enumerate(stream, u64::from_le_bytes(payload.try_into().unwrap())))
                .flatten()
            {
                return Some((c, payload.to_vec()));
            }
            let mut t = Tape::new(payload);
            prop.generate(stream, &mut t).map(|c| (c, payload.to_vec()))
        }
    }
}

enum Confirm {
    Violation {
        replay: String,
        message: String,
        facts: Vec<String>,
    },
    FailedNormally,
    NotReproduced,
}

fn confirm(prop: &dyn Prop, tier: Tier, stream: &str, hbfile: &str, hang: bool, chk: bool) -> Confirm {
    // re-run the case alone in a fresh process with the long limit
    let mut cmd = Command::new(exe_path(chk));
    cmd.arg("hb-check")
        .arg(prop.id())
        .arg(tier.name())
        .arg(stream)
        .arg(hbfile);
    let (end, _) = run_with_timeout(&mut cmd, 60);
    let (clause, mut facts) = match end {
        ChildEnd::Exit(0) => return Confirm::NotReproduced,
        ChildEnd::Exit(1) => return Confirm::FailedNormally,
        ChildEnd::Timeout => ("hang", vec!["clause:hang".to_string(), "hang".to_string()]),
        ChildEnd::Signal(s) => (
            "abort",
            vec![
                "clause:abort".to_string(),
                "abort".to_string(),
                format!("signal:{s}"),
            ],
        ),
        ChildEnd::Exit(c) => (
            "abort",
            vec![
                "clause:abort".to_string(),
                "abort".to_string(),
                format!("exit:{c}"),
            ],
        ),
    };
    let _ = hang;
    let Some((mut case, tape)) = hb_case(prop, stream, hbfile) else {
        return Confirm::NotReproduced;
    };
    // shrink with a subprocess oracle (bounded), for text-shrinkable properties
    if prop.text_shrink() && case.input.len() <= 4096 {
        case = shrink_by_subprocess(prop, tier, case, clause == "hang", chk);
    }
    facts.extend(prop.crash_facts(&case));
    let message = match clause {
        "hang" => "formatting did not return within 60 s in a fresh process".to_string(),
        _ => format!("the process aborted while formatting ({})", facts.last().cloned().unwrap_or_default()),
    };
    let f = Failure {
        clause: clause.to_string(),
        message: message.clone(),
        facts: facts.clone(),
    };
    let replay = write_replay(prop.id(), &case, &f, Some(&tape), stream, 0, tier, true);
    Confirm::Violation { replay, message, facts }
}

/// ddmin with "the fresh process still hangs / still dies" as the test. Bounded.
fn shrink_by_subprocess(prop: &dyn Prop, tier: Tier, case: Case, hang: bool, chk: bool) -> Case {
    let dir = format!("{}/out/run/shrink_{}", root(), std::process::id());
    let _ = std::fs::create_dir_all(&dir);
    let tmp = format!("{dir}/cand.json");
    let mut runs = 0u32;
    let t0 = Instant::now();
    let mut test = |c: &Case| -> Option<Failure> {
        runs += 1;
        // bounded in runs and in wall-clock time: a candidate that is merely slow costs its
        // whole time limit
        if runs > 250 || t0.elapsed().as_secs() > 150 {
            return None;
        }
        let rep = Replay {
            property: prop.id().to_string(),
            clause: String::new(),
            message: String::new(),
            facts: vec![],
            case: c.clone(),
            input_hex: String::new(),
            tape_hex: String::new(),
            stream: String::new(),
            seed: 0,
            tier: tier.name().into(),
            shrunk: false,
        };
        std::fs::write(&tmp, serde_json::to_vec(&rep).unwrap()).ok()?;
        let mut cmd = Command::new(exe_path(chk));
        cmd.arg("replay").arg(&tmp).arg("--raw");
        let (end, _) = run_with_timeout(&mut cmd, if hang { 5 } else { 30 });
        let bad = match end {
            ChildEnd::Timeout => hang,
            ChildEnd::Signal(_) => !hang,
            ChildEnd::Exit(c) => !hang && c != 0 && c != 1 && c != 2,
        };
        bad.then(|| Failure::new("x", String::new()))
    };
    let (c, _) = shrink::shrink_text(case, Failure::new("x", String::new()), &mut test, 250);
    let _ = std::fs::remove_dir_all(&dir);
    c
}

fn write_evidence(
    prop: &dyn Prop,
    tier: Tier,
    seed: u64,
    m: &Merged,
    violations: usize,
    wall: f64,
    streams: &[Stream],
) {
    let dir = format!("{}/evidence", root());
    let _ = std::fs::create_dir_all(&dir);
    let all_exhaustive = !streams.is_empty()
        && streams
            .iter()
            .all(|s| matches!(s.kind, StreamKind::Exhaustive { .. }));
    let mut samples = m.samples.clone();
    if samples.is_empty() {
        samples.push(serde_json::json!("(no non-trivial case in this run)"));
    }
    let per_stream: BTreeMap<String, serde_json::Value> = m
        .per_stream
        .iter()
        .map(|(k, v)| {
            (
                k.clone(),
                serde_json::json!({"evaluations": v.0, "nontrivial": v.1, "worker_cpu_s": (v.2 as f64 / 100.0).round() / 10.0}),
            )
        })
        .collect();
    let ev = serde_json::json!({
        "property_id": prop.id(),
        "tier": tier.name(),
        "seed": seed,
        "level": "exploration",
        "coverage": {
            "evaluations": m.evaluations,
            "distinct_nontrivial": m.distinct_nontrivial,
            "nontrivial_total": m.nontrivial_total,
            "rule": prop.rule(),
            "samples": samples,
            "exhaustive": all_exhaustive,
            "exhaustively_enumerated_streams": m.exhaustive_streams,
            "per_stream": per_stream,
            "discarded_by_precondition": m.discards,
            "excluded_known": m.excluded_known,
            "slow_inconclusive": m.slow_inconclusive,
            "duplicate_failures_not_shrunk": m.duplicate_failures,
            "shrink_evaluations": m.shrink_evals,
            "classes": m.classes,
        },
        "assumptions": prop.assumptions(),
        "wall_s": (wall * 10.0).round() / 10.0,
        "violations": violations,
    });
    let path = format!("{dir}/{}.json", prop.id());
    std::fs::write(&path, serde_json::to_string_pretty(&ev).unwrap()).expect("write evidence");
}
