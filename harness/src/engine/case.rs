//! Cases, configurations, outcomes.

use pasfmt::FormattingConfig;
use pasfmt_core::prelude::*;
use serde::{Deserialize, Serialize};

use super::tape::Tape;

#[derive(Serialize, Deserialize, Clone, Debug, PartialEq, Eq, Hash)]
pub struct Cfg {
    pub wrap_column: u32,
    pub begin_always_wrap: bool,
    pub format_multiline_strings: bool,
    pub use_tabs: bool,
    pub tab_width: u8,
    pub continuation_indents: u8,
    pub crlf: bool,
}

impl Default for Cfg {
    fn default() -> Self {
        Cfg {
            wrap_column: 120,
            begin_always_wrap: false,
            format_multiline_strings: true,
            use_tabs: false,
            tab_width: 2,
            continuation_indents: 2,
            crlf: false,
        }
    }
}

pub const WRAP_POOL: &[u32] = &[
    120,
    30,
    80,
    40,
    60,
    20,
    100,
    10,
    200,
    1000,
    u32::MAX,
    15,
    50,
];

impl Cfg {
    pub fn to_toml(&self) -> String {
        format!(
            "wrap_column = {}\nbegin_style = \"{}\"\nformat_multiline_strings = {}\nuse_tabs = {}\ntab_width = {}\ncontinuation_indents = {}\nline_ending = \"{}\"\n",
            self.wrap_column,
            if self.begin_always_wrap { "always_wrap" } else { "auto" },
            self.format_multiline_strings,
            self.use_tabs,
            self.tab_width,
            self.continuation_indents,
            if self.crlf { "crlf" } else { "lf" },
        )
    }

    /// `-C` options giving exactly this configuration.
    pub fn to_cli(&self) -> Vec<String> {
        vec![
            format!("-Cwrap_column={}", self.wrap_column),
            format!(
                "-Cbegin_style={}",
                if self.begin_always_wrap { "always_wrap" } else { "auto" }
            ),
            format!("-Cformat_multiline_strings={}", self.format_multiline_strings),
            format!("-Cuse_tabs={}", self.use_tabs),
            format!("-Ctab_width={}", self.tab_width),
            format!("-Ccontinuation_indents={}", self.continuation_indents),
            format!("-Cline_ending={}", if self.crlf { "crlf" } else { "lf" }),
        ]
    }

    pub fn config(&self) -> FormattingConfig {
        toml::from_str::<FormattingConfig>(&self.to_toml()).expect("harness config must parse")
    }

    pub fn formatter(&self) -> Formatter {
        pasfmt::make_formatter(&self.config())
    }

    pub fn nl(&self) -> &'static str {
        if self.crlf {
            "\r\n"
        } else {
            "\n"
        }
    }

    /// One indentation unit as rendered.
    pub fn unit(&self) -> String {
        if self.use_tabs {
            "\t".to_string()
        } else {
            " ".repeat(self.tab_width as usize)
        }
    }

    /// True when tab_width x continuation_indents saturates the u8 the front-end computes with
    /// (known finding F-C10-saturate; excluded by construction from most searches).
    pub fn saturates(&self) -> bool {
        !self.use_tabs && (self.tab_width as u32) * (self.continuation_indents as u32) > 255
    }

    /// General configuration generator (G-config). First alternatives = defaults.
    pub fn gen(t: &mut Tape) -> Cfg {
        let mut c = Cfg::default();
        if t.chance(5, 8) {
            c.wrap_column = if t.chance(1, 6) {
                t.range(8, 250)
            } else if t.chance(1, 40) {
                // degenerate widths: the wrapper runs into its iteration limit on most lines
                *t.pick(&[0, 1, 2, 5])
            } else {
                *t.pick(WRAP_POOL)
            };
        }
        c.begin_always_wrap = t.chance(1, 3);
        c.format_multiline_strings = !t.chance(1, 4);
        c.use_tabs = t.chance(1, 3);
        if t.chance(1, 2) {
            c.tab_width = match t.below(8) {
                0 => 2,
                1 => 4,
                2 => 0,
                3 => 1,
                4 => 3,
                5 => 8,
                6 => t.range(0, 16) as u8,
                _ => t.range(0, 255) as u8,
            };
        }
        if t.chance(1, 2) {
            c.continuation_indents = match t.below(8) {
                0 => 2,
                1 => 1,
                2 => 0,
                3 => 3,
                4 => 4,
                5 => 2,
                6 => t.range(0, 8) as u8,
                _ => t.range(0, 255) as u8,
            };
        }
        c.crlf = t.chance(1, 3);
        c
    }

    /// As `gen`, but never in the saturating region (tab_width x continuation_indents > 255).
    pub fn gen_unsaturated(t: &mut Tape) -> Cfg {
        let mut c = Cfg::gen(t);
        if c.saturates() {
            c.continuation_indents = (255 / c.tab_width.max(1) as u32).min(255) as u8;
        }
        c
    }
}

/// Annotation of a grammar-generated program (DESIGN §3.3): the intended lexemes and the
/// structural marks C05 needs.
#[derive(Serialize, Deserialize, Clone, Debug, Default)]
pub struct Ann {
    /// intended lexemes, in order (no blanks)
    pub lexemes: Vec<String>,
    /// coarse kind per lexeme (see model::refscan::Kind as u8)
    pub kinds: Vec<u8>,
    /// structural marks
    pub marks: Vec<Mark>,
    /// construct tags for histograms
    pub tags: Vec<String>,
}

#[derive(Serialize, Deserialize, Clone, Debug)]
pub struct Mark {
    /// index into lexemes of the marked token
    pub tok: u32,
    /// index of the anchor token
    pub anchor: u32,
    /// 0 = member/statement start (anchor indent + 1), 1 = closer (anchor indent),
    /// 2 = control-flow begin (own line at anchor indent only with begin_style=always_wrap)
    pub role: u8,
}

#[derive(Serialize, Deserialize, Clone, Debug, Default)]
pub struct Case {
    /// name of the generator that produced it
    pub gen: String,
    pub input: String,
    pub cfg: Cfg,
    #[serde(default, skip_serializing_if = "Vec::is_empty")]
    pub cursors: Vec<u32>,
    /// second rendering / variant input for metamorphic properties
    #[serde(default, skip_serializing_if = "Option::is_none")]
    pub input2: Option<String>,
    #[serde(default, skip_serializing_if = "Option::is_none")]
    pub cfg2: Option<Cfg>,
    #[serde(default, skip_serializing_if = "Option::is_none")]
    pub ann: Option<Ann>,
    /// property-specific structured data (CLI scenarios, literal descriptions, ...)
    #[serde(default, skip_serializing_if = "serde_json::Value::is_null")]
    pub extra: serde_json::Value,
    /// generator tags (construct classes)
    #[serde(default, skip_serializing_if = "Vec::is_empty")]
    pub tags: Vec<String>,
}

impl Case {
    pub fn text(gen: &str, input: String, cfg: Cfg) -> Case {
        Case {
            gen: gen.to_string(),
            input,
            cfg,
            ..Default::default()
        }
    }
}

#[derive(Clone, Debug)]
pub struct Failure {
    /// which clause of the oracle failed (part of the signature facts)
    pub clause: String,
    pub message: String,
    /// facts about the failure used to match known findings
    pub facts: Vec<String>,
}

impl Failure {
    pub fn new(clause: &str, message: String) -> Failure {
        Failure {
            clause: clause.to_string(),
            message,
            facts: vec![format!("clause:{clause}")],
        }
    }
    pub fn facts(mut self, f: &[String]) -> Failure {
        self.facts.extend(f.iter().cloned());
        self
    }
    pub fn fact(mut self, f: impl Into<String>) -> Failure {
        self.facts.push(f.into());
        self
    }
}

pub enum Outcome {
    Pass { nontrivial: bool },
    Discard(&'static str),
    Fail(Failure),
}

pub fn format_with(cfg: &Cfg, input: &str) -> String {
    cfg.formatter().format(input, FileOptions::new())
}

pub fn format_with_cursors(cfg: &Cfg, input: &str, cursors: &[u32]) -> (String, Vec<u32>) {
    let mut cs: Vec<Cursor> = cursors.iter().map(|c| Cursor(*c)).collect();
    let out = cfg
        .formatter()
        .format(input, FileOptions::new().with_cursors(&mut cs));
    (out, cs.iter().map(|c| c.0).collect())
}

pub fn hex(bytes: &[u8]) -> String {
    let mut s = String::with_capacity(bytes.len() * 2);
    for b in bytes {
        s.push_str(&format!("{:02x}", b));
    }
    s
}

pub fn unhex(s: &str) -> Vec<u8> {
    (0..s.len() / 2)
        .filter_map(|i| u8::from_str_radix(&s[2 * i..2 * i + 2], 16).ok())
        .collect()
}

/// 64-bit FNV-1a, used for distinct-case counting (deterministic, no RandomState).
pub fn fnv64(parts: &[&[u8]]) -> u64 {
    let mut h: u64 = 0xcbf29ce484222325;
    for p in parts {
        for b in *p {
            h ^= *b as u64;
            h = h.wrapping_mul(0x100000001b3);
        }
        h ^= 0xff;
        h = h.wrapping_mul(0x100000001b3);
    }
    h
}

pub fn short(s: &str, n: usize) -> String {
    if s.len() <= n {
        s.to_string()
    } else {
        let mut e = n;
        while !s.is_char_boundary(e) {
            e -= 1;
        }
        format!("{}…(+{} bytes)", &s[..e], s.len() - e)
    }
}
