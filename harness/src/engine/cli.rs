//! Process driver for the CLI-level properties (C16-C19): scratch directories, running the
//! `pasfmt` binary built from /repo's working tree, file helpers.

use std::io::Write;
use std::path::{Path, PathBuf};
use std::process::{Command, Stdio};
use std::sync::atomic::{AtomicU64, Ordering};
use std::time::SystemTime;

use super::findings::root;

pub fn bin_path() -> String {
    if let Ok(p) = std::env::var("VERIF_PASFMT_BIN") {
        return p;
    }
    format!("{}/target/repo-bin/release/pasfmt", root())
}

static COUNTER: AtomicU64 = AtomicU64::new(0);

pub fn scratch_root() -> PathBuf {
    let base = std::env::var("VERIF_SCRATCH")
        .unwrap_or_else(|_| format!("{}/out/run/adhoc_scratch", root()));
    PathBuf::from(base).join(format!("p{}", std::process::id()))
}

/// A fresh directory, removed on drop.
pub struct Scratch {
    pub dir: PathBuf,
}

impl Scratch {
    pub fn new() -> Scratch {
        let n = COUNTER.fetch_add(1, Ordering::Relaxed);
        let dir = scratch_root().join(format!("s{n}"));
        let _ = std::fs::remove_dir_all(&dir);
        std::fs::create_dir_all(&dir).unwrap_or_else(|e| {
            eprintln!("cannot create scratch dir {}: {e}", dir.display());
            std::process::exit(2)
        });
        Scratch { dir }
    }
    pub fn path(&self, rel: &str) -> PathBuf {
        self.dir.join(rel)
    }
    pub fn write(&self, rel: &str, bytes: &[u8]) -> PathBuf {
        let p = self.path(rel);
        if let Some(parent) = p.parent() {
            std::fs::create_dir_all(parent).expect("mkdir");
        }
        std::fs::write(&p, bytes).expect("write scratch file");
        p
    }
}

impl Default for Scratch {
    fn default() -> Self {
        Scratch::new()
    }
}

impl Drop for Scratch {
    fn drop(&mut self) {
        let _ = std::fs::remove_dir_all(&self.dir);
    }
}

/// No `pasfmt.toml` may exist in any ancestor of the scratch root (it would be picked up by
/// the configuration search). Checked once; exits 2 if violated.
pub fn check_no_config_above() {
    let mut p = scratch_root();
    loop {
        if p.join("pasfmt.toml").is_file() {
            eprintln!("ERROR: {} exists; the CLI checks need a scratch root without configuration above it", p.join("pasfmt.toml").display());
            std::process::exit(2);
        }
        if !p.pop() {
            break;
        }
    }
}

pub struct RunOut {
    pub code: Option<i32>,
    pub stdout: Vec<u8>,
    pub stderr: Vec<u8>,
}

impl RunOut {
    pub fn ok(&self) -> bool {
        self.code == Some(0)
    }
    pub fn stderr_text(&self) -> String {
        String::from_utf8_lossy(&self.stderr).into_owned()
    }
}

pub fn run_pasfmt(args: &[String], cwd: &Path, stdin: Option<&[u8]>, env: &[(&str, String)]) -> RunOut {
    let mut cmd = Command::new(bin_path());
    cmd.args(args)
        .current_dir(cwd)
        .stdin(if stdin.is_some() { Stdio::piped() } else { Stdio::null() })
        .stdout(Stdio::piped())
        .stderr(Stdio::piped())
        .env_remove("RAYON_NUM_THREADS")
        .env_remove("PASFMT_VERIF_JITTER");
    for (k, v) in env {
        cmd.env(k, v);
    }
    let mut child = cmd.spawn().unwrap_or_else(|e| {
        eprintln!("cannot run {}: {e} (was the binary built? ./run build)", bin_path());
        std::process::exit(2)
    });
    if let Some(data) = stdin {
        let mut si = child.stdin.take().unwrap();
        let data = data.to_vec();
        // write from a thread so that a child that never reads cannot block us forever
        std::thread::spawn(move || {
            let _ = si.write_all(&data);
        });
    }
    let out = child.wait_with_output().expect("wait pasfmt");
    RunOut { code: out.status.code(), stdout: out.stdout, stderr: out.stderr }
}

pub fn mtime(p: &Path) -> Option<SystemTime> {
    std::fs::metadata(p).ok().and_then(|m| m.modified().ok())
}

/// Set a file's mtime into the past so that a rewrite is observable.
pub fn age(p: &Path) -> SystemTime {
    let old = SystemTime::UNIX_EPOCH + std::time::Duration::from_secs(1_000_000_000);
    let f = std::fs::OpenOptions::new().write(true).open(p).expect("open for set_modified");
    f.set_modified(old).expect("set_modified");
    old
}

pub fn s(x: &str) -> String {
    x.to_string()
}
