pub mod case;
pub mod cli;
pub mod findings;
pub mod logcap;
pub mod parent;
pub mod shrink;
pub mod tape;
pub mod worker;

use std::collections::BTreeMap;

pub use case::*;
pub use tape::Tape;

#[derive(Clone, Copy, PartialEq, Eq, Debug)]
pub enum Tier {
    Quick,
    Thorough,
}

impl Tier {
    pub fn name(&self) -> &'static str {
        match self {
            Tier::Quick => "quick",
            Tier::Thorough => "thorough",
        }
    }
    pub fn parse(s: &str) -> Option<Tier> {
        match s {
            "quick" => Some(Tier::Quick),
            "thorough" => Some(Tier::Thorough),
            _ => None,
        }
    }
}

#[derive(Clone, Debug)]
pub enum StreamKind {
    /// `cases` tapes of up to `tape_max` bytes per shard, generated and shrunk by proptest
    Random { cases: u64, tape_max: usize },
    /// indices 0..size enumerated completely, split over the shards
    Exhaustive { size: u64 },
}

#[derive(Clone, Debug)]
pub struct Stream {
    pub name: &'static str,
    pub kind: StreamKind,
    pub shards: u32,
    /// run this stream with the binary built with debug assertions and overflow checks
    pub chk_profile: bool,
}

impl Stream {
    pub fn random(name: &'static str, cases_per_shard: u64, tape_max: usize) -> Stream {
        Stream {
            name,
            kind: StreamKind::Random {
                cases: cases_per_shard,
                tape_max,
            },
            shards: 16,
            chk_profile: false,
        }
    }
    pub fn exhaustive(name: &'static str, size: u64) -> Stream {
        Stream {
            name,
            kind: StreamKind::Exhaustive { size },
            shards: 16,
            chk_profile: false,
        }
    }
    pub fn shards(mut self, n: u32) -> Stream {
        self.shards = n;
        self
    }
    pub fn chk(mut self) -> Stream {
        self.chk_profile = true;
        self
    }
}

/// Per-worker evaluation context: class histogram and the log lines captured from the formatter
/// during the current check.
#[derive(Default)]
pub struct Ctx {
    pub classes: BTreeMap<String, u64>,
    pub tier_thorough: bool,
}

impl Ctx {
    pub fn class(&mut self, name: &str) {
        *self.classes.entry(name.to_string()).or_insert(0) += 1;
    }
    pub fn class_if(&mut self, cond: bool, name: &str) {
        if cond {
            self.class(name);
        }
    }
}

pub trait Prop: Sync {
    fn id(&self) -> &'static str;
    /// how cases are generated and what makes one non-trivial / distinct
    fn rule(&self) -> String;
    fn assumptions(&self) -> Vec<String>;
    fn streams(&self, tier: Tier) -> Vec<Stream>;
    fn generate(&self, stream: &str, t: &mut Tape) -> Option<Case>;
    fn enumerate(&self, _stream: &str, _index: u64) -> Option<Case> {
        None
    }
    fn check(&self, case: &Case, ctx: &mut Ctx) -> Outcome;
    /// may the text-level shrinker edit `case.input` freely (all-input properties only)?
    fn text_shrink(&self) -> bool {
        false
    }
    /// extra facts about a case that made the process hang or abort (for known-finding matching)
    fn crash_facts(&self, _case: &Case) -> Vec<String> {
        vec![]
    }
    /// Limit in seconds after which a case of this size is reported as a hang (None: a slow
    /// case is only counted as `slow_inconclusive`).
    fn hang_limit(&self, case: &Case) -> Option<u64> {
        if case.input.len() <= 256 && case.input2.as_ref().map_or(0, |s| s.len()) <= 256 {
            Some(10)
        } else {
            None
        }
    }
}
