//! Text-level shrinking (DESIGN §2.2 step 2) for properties that quantify over arbitrary text.

use super::*;

/// Greedy delta-debugging over lines, then character chunks, then configuration fields and
/// cursors. `test` returns the failure if the candidate still fails with the same clause.
pub fn shrink_text(
    mut case: Case,
    mut fail: Failure,
    test: &mut dyn FnMut(&Case) -> Option<Failure>,
    budget: u32,
) -> (Case, Failure) {
    let mut used = 0u32;
    let mut try_case = |cand: Case, case: &mut Case, fail: &mut Failure, used: &mut u32| -> bool {
        if *used >= budget {
            return false;
        }
        *used += 1;
        if let Some(f) = test(&cand) {
            *case = cand;
            *fail = f;
            true
        } else {
            false
        }
    };

    // configuration towards defaults
    let d = Cfg::default();
    let fields: [fn(&mut Cfg, &Cfg); 7] = [
        |c, d| c.wrap_column = d.wrap_column,
        |c, d| c.begin_always_wrap = d.begin_always_wrap,
        |c, d| c.format_multiline_strings = d.format_multiline_strings,
        |c, d| c.use_tabs = d.use_tabs,
        |c, d| c.tab_width = d.tab_width,
        |c, d| c.continuation_indents = d.continuation_indents,
        |c, d| c.crlf = d.crlf,
    ];
    for f in fields.iter() {
        let mut cand = case.clone();
        f(&mut cand.cfg, &d);
        if cand.cfg != case.cfg {
            try_case(cand, &mut case, &mut fail, &mut used);
        }
    }
    // cursors: one at a time
    if case.cursors.len() > 1 {
        for i in 0..case.cursors.len() {
            let mut cand = case.clone();
            cand.cursors = vec![case.cursors[i]];
            if try_case(cand, &mut case, &mut fail, &mut used) {
                break;
            }
        }
    }

    // chunks of the input, halving granularity
    let mut n = 2usize;
    loop {
        let chars: Vec<(usize, char)> = case.input.char_indices().collect();
        let len = chars.len();
        if len == 0 || used >= budget {
            break;
        }
        let chunk = len.div_ceil(n).max(1);
        let mut progressed = false;
        let mut start = 0usize;
        while start < len {
            let end = (start + chunk).min(len);
            let b0 = chars[start].0;
            let b1 = if end < len { chars[end].0 } else { case.input.len() };
            let mut cand = case.clone();
            cand.input = format!("{}{}", &case.input[..b0], &case.input[b1..]);
            // keep cursors within bounds and on boundaries: drop those beyond the cut
            cand.cursors = case
                .cursors
                .iter()
                .filter_map(|c| {
                    let c = *c as usize;
                    if c <= b0 {
                        Some(c as u32)
                    } else if c >= b1 {
                        Some((c - (b1 - b0)) as u32)
                    } else {
                        None
                    }
                })
                .collect();
            if case.cursors.len() == 1 && cand.cursors.is_empty() {
                // keep the single cursor alive at the cut point
                cand.cursors = vec![b0 as u32];
            }
            if try_case(cand, &mut case, &mut fail, &mut used) {
                progressed = true;
                break; // indices changed; recompute
            }
            start = end;
        }
        if progressed {
            n = n.saturating_sub(1).max(2);
            continue;
        }
        if chunk == 1 {
            break;
        }
        n = (n * 2).min(len);
    }

    // simplify characters: replace non-ASCII by 'x' where possible
    let idxs: Vec<(usize, char)> = case
        .input
        .char_indices()
        .filter(|(_, c)| !c.is_ascii())
        .collect();
    if idxs.len() <= 20 && case.cursors.is_empty() {
        for (i, c) in idxs.into_iter().rev() {
            let mut cand = case.clone();
            cand.input.replace_range(i..i + c.len_utf8(), "x");
            try_case(cand, &mut case, &mut fail, &mut used);
        }
    }
    (case, fail)
}
