//! Worker process: runs one shard of one stream of one property (DESIGN §2.1, §2.5).
//!
//! A worker is a separate process so that an abort (stack overflow, `abort()`), or a hang of the
//! code under test takes down only the shard; the parent then reads the heartbeat file to learn
//! which case was running.

use std::collections::BTreeMap;
use std::os::unix::fs::FileExt;
use std::panic::{catch_unwind, AssertUnwindSafe};
use std::sync::atomic::{AtomicU64, Ordering};
use std::sync::{Arc, Mutex};
use std::time::Instant;

use proptest::strategy::{Strategy, ValueTree};
use proptest::test_runner::{Config, RngSeed, TestRunner};
use serde::{Deserialize, Serialize};

use super::findings::Findings;
use super::*;

pub const EXIT_HANG: i32 = 87;
pub const EXIT_SLOW: i32 = 88;

#[derive(Serialize, Deserialize, Clone, Debug)]
pub struct FailRec {
    pub replay: String,
    pub clause: String,
    pub message: String,
    pub facts: Vec<String>,
    pub sig: String,
}

#[derive(Serialize, Deserialize, Default, Clone, Debug)]
pub struct WorkerResult {
    pub evaluations: u64,
    pub nontrivial: u64,
    pub discards: BTreeMap<String, u64>,
    pub classes: BTreeMap<String, u64>,
    pub excluded_known: BTreeMap<String, u64>,
    pub failures: Vec<FailRec>,
    pub duplicate_failures: u64,
    pub samples: Vec<serde_json::Value>,
    pub next_index: u64,
    pub completed: bool,
    pub slow_inconclusive: u64,
    pub shrink_evals: u64,
    #[serde(skip)]
    pub hashes: Vec<u64>,
    pub hashes_path: String,
    pub distinct_by_construction: bool,
    pub wall_ms: u64,
}

pub struct WorkerArgs {
    pub tier: Tier,
    pub seed: u64,
    pub stream: String,
    pub shard: u32,
    pub skip: u64,
    pub outdir: String,
    /// for the regress stream: list of replay files
    pub files: Vec<String>,
}

thread_local! {
    static LAST_PANIC: std::cell::RefCell<Option<(String, String, String)>> = const { std::cell::RefCell::new(None) };
}

pub fn install_panic_hook() {
    std::panic::set_hook(Box::new(|info| {
        let loc = info
            .location()
            .map(|l| format!("{}:{}", l.file(), l.line()))
            .unwrap_or_else(|| "?".into());
        let msg = if let Some(s) = info.payload().downcast_ref::<&str>() {
            s.to_string()
        } else if let Some(s) = info.payload().downcast_ref::<String>() {
            s.clone()
        } else {
            "panic".to_string()
        };
        // innermost function of the code under test on the stack (stable across line shifts)
        let bt = std::backtrace::Backtrace::force_capture().to_string();
        let func = bt
            .lines()
            .map(|l| l.trim())
            .filter_map(|l| l.split_once(": ").map(|x| x.1))
            .find(|f| {
                (f.starts_with("pasfmt") || f.starts_with("<pasfmt")) && !f.contains("{{closure}}")
                    || f.contains("pasfmt_core::") && !f.starts_with("core::") && !f.starts_with("std::")
            })
            .unwrap_or("?")
            .to_string();
        LAST_PANIC.with(|p| *p.borrow_mut() = Some((msg, loc, func)));
    }));
}

/// Evaluate the oracle on one case, turning a panic of the code under test into a failure.
pub fn eval(prop: &dyn Prop, case: &Case, ctx: &mut Ctx) -> Outcome {
    logcap::clear();
    LAST_PANIC.with(|p| *p.borrow_mut() = None);
    match catch_unwind(AssertUnwindSafe(|| prop.check(case, ctx))) {
        Ok(Outcome::Fail(mut f)) => {
            f.facts.extend(input_facts(case));
            Outcome::Fail(f)
        }
        Ok(o) => o,
        Err(_) => {
            let (msg, loc, func) = LAST_PANIC
                .with(|p| p.borrow_mut().take())
                .unwrap_or(("panic".into(), "?".into(), "?".into()));
            // A panic inside the harness itself is an infrastructure error, not a violation.
            if loc.contains("/verif/") || loc.starts_with("src/") {
                eprintln!("harness panic at {loc}: {msg}");
                std::process::exit(2);
            }
            let mut m = msg.clone();
            if m.len() > 300 {
                let mut e = 300;
                while !m.is_char_boundary(e) {
                    e -= 1;
                }
                m.truncate(e);
            }
            Outcome::Fail(
                Failure::new("panic", format!("formatter panicked at {loc} in {func}: {m}"))
                    .fact("panic")
                    .fact(format!("panic-at:{}", loc_short(&loc)))
                    .fact(format!("panic-fn:{}", fn_short(&func)))
                    .fact(format!("panic-msg:{}", msg_short(&msg))),
            )
        }
    }
}

/// Facts about the input that known-finding signatures may refer to.
pub fn input_facts(case: &Case) -> Vec<String> {
    let mut v = vec![];
    let lone_cr = |s: &str| {
        let b = s.as_bytes();
        b.iter()
            .enumerate()
            .any(|(i, c)| *c == b'\r' && b.get(i + 1) != Some(&b'\n'))
    };
    if lone_cr(&case.input) || case.input2.as_deref().is_some_and(lone_cr) {
        v.push("input:lone-cr".to_string());
    }
    for t in &case.tags {
        v.push(format!("tag:{t}"));
    }
    v
}

fn fn_short(f: &str) -> String {
    // drop the trailing ::h<hash> and generic noise
    let f = match f.rfind("::h") {
        Some(i) if f[i + 3..].chars().all(|c| c.is_ascii_hexdigit()) => &f[..i],
        _ => f,
    };
    f.to_string()
}

fn msg_short(m: &str) -> String {
    // keep the words, drop the numbers: "index out of bounds: the len is N but the index is N"
    let s: String = m
        .chars()
        .take(60)
        .map(|c| if c.is_ascii_digit() { 'N' } else { c })
        .collect();
    s
}

fn loc_short(loc: &str) -> String {
    // strip the absolute prefix and the line number: stable across unrelated edits
    let file = loc.rsplit_once(':').map(|x| x.0).unwrap_or(loc);
    file.trim_start_matches("/repo/").to_string()
}

pub fn sig_of(f: &Failure) -> String {
    let mut v = f.facts.clone();
    v.sort();
    v.dedup();
    v.join("|")
}

struct Shared {
    started_ms: AtomicU64, // 0 = idle
    limit_ms: AtomicU64,
    hang_oracle: AtomicU64, // 1 = expiry is a hang, 0 = expiry is slow_inconclusive
    index: AtomicU64,
}

pub struct Runner<'a> {
    pub prop: &'a dyn Prop,
    pub args: &'a WorkerArgs,
    pub ctx: Ctx,
    pub findings: Findings,
    pub res: Arc<Mutex<WorkerResult>>,
    shared: Arc<Shared>,
    hb: std::fs::File,
    t0: Instant,
    seen_sigs: Vec<String>,
}

fn now_ms(t0: &Instant) -> u64 {
    t0.elapsed().as_millis() as u64 + 1
}

impl<'a> Runner<'a> {
    pub fn new(prop: &'a dyn Prop, args: &'a WorkerArgs) -> Runner<'a> {
        let hb_path = format!("{}/hb_{}_{}.bin", args.outdir, args.stream, args.shard);
        let hb = std::fs::OpenOptions::new()
            .create(true)
            .write(true)
            .truncate(true)
            .open(&hb_path)
            .unwrap_or_else(|e| {
                eprintln!("cannot create {hb_path}: {e}");
                std::process::exit(2)
            });
        let shared = Arc::new(Shared {
            started_ms: AtomicU64::new(0),
            limit_ms: AtomicU64::new(0),
            hang_oracle: AtomicU64::new(0),
            index: AtomicU64::new(0),
        });
        let res = Arc::new(Mutex::new(WorkerResult {
            next_index: args.skip,
            ..Default::default()
        }));
        let t0 = Instant::now();
        // watchdog thread
        {
            let shared = shared.clone();
            let res = res.clone();
            let outdir = args.outdir.clone();
            let stream = args.stream.clone();
            let shard = args.shard;
            let skip = args.skip;
            std::thread::spawn(move || loop {
                std::thread::sleep(std::time::Duration::from_millis(100));
                let started = shared.started_ms.load(Ordering::Acquire);
                if started == 0 {
                    continue;
                }
                let limit = shared.limit_ms.load(Ordering::Acquire);
                let now = now_ms(&t0);
                if now > started + limit {
                    let hang = shared.hang_oracle.load(Ordering::Acquire) == 1;
                    let mut r = res.lock().unwrap_or_else(|e| e.into_inner()).clone();
                    r.next_index = shared.index.load(Ordering::Acquire);
                    r.completed = false;
                    write_result(&outdir, &stream, shard, skip, &mut r);
                    unsafe { libc::_exit(if hang { EXIT_HANG } else { EXIT_SLOW }) };
                }
            });
        }
        Runner {
            prop,
            args,
            ctx: Ctx {
                tier_thorough: args.tier == Tier::Thorough,
                ..Default::default()
            },
            findings: Findings::load(),
            res,
            shared,
            hb,
            t0,
            seen_sigs: vec![],
        }
    }

    fn beat(&mut self, index: u64, kind: u8, payload: &[u8]) {
        let mut buf = Vec::with_capacity(payload.len() + 13);
        buf.extend_from_slice(&index.to_le_bytes());
        buf.push(kind);
        buf.extend_from_slice(&(payload.len() as u32).to_le_bytes());
        buf.extend_from_slice(payload);
        let _ = self.hb.write_all_at(&buf, 0);
    }

    fn arm(&mut self, case: &Case, index: u64) {
        let (limit, hang) = match self.prop.hang_limit(case) {
            Some(s) => (s * 1000, 1),
            None => (if self.args.tier == Tier::Quick { 20_000 } else { 120_000 }, 0),
        };
        self.shared.index.store(index, Ordering::Release);
        self.shared.limit_ms.store(limit, Ordering::Release);
        self.shared.hang_oracle.store(hang, Ordering::Release);
        self.shared
            .started_ms
            .store(now_ms(&self.t0), Ordering::Release);
    }

    fn disarm(&mut self) {
        self.shared.started_ms.store(0, Ordering::Release);
    }

    /// Evaluate under the watchdog. `payload` identifies the case for the parent if we die.
    pub fn guarded_eval(&mut self, case: &Case, index: u64, kind: u8, payload: &[u8]) -> Outcome {
        self.beat(index, kind, payload);
        self.arm(case, index);
        let t = Instant::now();
        let o = eval(self.prop, case, &mut self.ctx);
        self.disarm();
        let dt = t.elapsed();
        if dt.as_millis() > 2000 {
            eprintln!(
                "slow case: {:?} gen={} input {} bytes: {:?}",
                dt,
                case.gen,
                case.input.len(),
                short(&case.input, 300)
            );
        }
        o
    }

    /// Evaluate, and treat a failure that matches an open known finding as "known".
    /// Returns (outcome, known finding id).
    pub fn eval_known(
        &mut self,
        case: &Case,
        index: u64,
        kind: u8,
        payload: &[u8],
    ) -> (Outcome, Option<String>) {
        let o = self.guarded_eval(case, index, kind, payload);
        if let Outcome::Fail(f) = &o {
            if let Some(k) = self.findings.matching(self.prop.id(), &f.facts) {
                return (o, Some(k.id.clone()));
            }
        }
        (o, None)
    }

    fn record_pass(&mut self, case: &Case, nontrivial: bool, index: u64) {
        let mut r = self.res.lock().unwrap();
        r.evaluations += 1;
        r.next_index = index + 1;
        if nontrivial {
            r.nontrivial += 1;
            if r.hashes.len() < 3_000_000 {
                let h = fnv64(&[
                    case.input.as_bytes(),
                    case.cfg.to_toml().as_bytes(),
                    case.input2.as_deref().unwrap_or("").as_bytes(),
                    &case
                        .cursors
                        .iter()
                        .flat_map(|c| c.to_le_bytes())
                        .collect::<Vec<u8>>(),
                    case.extra.to_string().as_bytes(),
                ]);
                r.hashes.push(h);
            }
            // keep a few samples: the first two non-trivial cases and then sparse ones
            let n = r.nontrivial;
            if r.samples.len() < 4 && (n <= 2 || n.is_power_of_two() && n >= 64) {
                r.samples.push(sample_json(case));
            }
        }
    }

    fn handle(&mut self, case: Case, tape: Option<&[u8]>, index: u64) {
        let payload_owned;
        let (kind, payload): (u8, &[u8]) = match tape {
            Some(t) => (0, t),
            None => {
                payload_owned = serde_json::to_vec(&case).unwrap();
                (1, &payload_owned)
            }
        };
        let (o, known) = self.eval_known(&case, index, kind, payload);
        match o {
            Outcome::Pass { nontrivial } => self.record_pass(&case, nontrivial, index),
            Outcome::Discard(why) => {
                let mut r = self.res.lock().unwrap();
                *r.discards.entry(why.to_string()).or_insert(0) += 1;
                r.next_index = index + 1;
            }
            Outcome::Fail(f) => {
                if let Some(k) = known {
                    let mut r = self.res.lock().unwrap();
                    r.evaluations += 1;
                    *r.excluded_known.entry(k).or_insert(0) += 1;
                    r.next_index = index + 1;
                    return;
                }
                let sig = sig_of(&f);
                {
                    let mut r = self.res.lock().unwrap();
                    r.evaluations += 1;
                    r.next_index = index + 1;
                    if self.seen_sigs.contains(&sig) || r.failures.len() >= 3 {
                        r.duplicate_failures += 1;
                        return;
                    }
                }
                self.seen_sigs.push(sig);
                // shrink
                let (case, f, shrunk) = self.shrink(case, f, tape, index);
                let sig = sig_of(&f);
                let path = write_replay(
                    self.prop.id(),
                    &case,
                    &f,
                    tape,
                    &self.args.stream,
                    self.args.seed,
                    self.args.tier,
                    shrunk,
                );
                let mut r = self.res.lock().unwrap();
                r.failures.push(FailRec {
                    replay: path,
                    clause: f.clause.clone(),
                    message: f.message.clone(),
                    facts: f.facts.clone(),
                    sig,
                });
            }
        }
    }

    fn shrink(
        &mut self,
        case: Case,
        f: Failure,
        _tape: Option<&[u8]>,
        index: u64,
    ) -> (Case, Failure, bool) {
        // grammar-derived cases stay grammar-derived: only tape-level shrinking for them
        if !self.prop.text_shrink() || case.ann.is_some() {
            return (case, f, false);
        }
        let clause = f.clause.clone();
        let mut evals = 0u64;
        let t_shrink = Instant::now();
        let (c, f2) = {
            let mut test = |cand: &Case| -> Option<Failure> {
                evals += 1;
                if t_shrink.elapsed().as_secs() > 20 {
                    return None;
                }
                let payload = serde_json::to_vec(cand).unwrap();
                let (o, known) = self.eval_known(cand, index, 1, &payload);
                match o {
                    Outcome::Fail(f) if known.is_none() && f.clause == clause => Some(f),
                    _ => None,
                }
            };
            shrink::shrink_text(case, f, &mut test, 4000)
        };
        self.res.lock().unwrap().shrink_evals += evals;
        (c, f2, true)
    }

    pub fn run(&mut self) {
        let prop = self.prop;
        let stream_name = self.args.stream.clone();
        if stream_name == "regress" {
            let files = self.args.files.clone();
            for (i, f) in files.iter().enumerate() {
                if (i as u64) < self.args.skip {
                    continue;
                }
                match load_replay(f) {
                    Ok(rep) => {
                        let mut c = rep.case;
                        c.gen = format!("regress:{}", f);
                        self.handle(c, None, i as u64);
                    }
                    Err(e) => {
                        eprintln!("cannot load {f}: {e}");
                        std::process::exit(2);
                    }
                }
            }
            return;
        }
        let stream = prop
            .streams(self.args.tier)
            .into_iter()
            .find(|s| s.name == stream_name)
            .unwrap_or_else(|| {
                eprintln!("unknown stream {stream_name}");
                std::process::exit(2)
            });
        match stream.kind {
            StreamKind::Exhaustive { size } => {
                self.res.lock().unwrap().distinct_by_construction = true;
                let shards = stream.shards as u64;
                let per = size.div_ceil(shards);
                let lo = per * self.args.shard as u64;
                let hi = (lo + per).min(size);
                let mut i = lo.max(self.args.skip);
                while i < hi {
                    match prop.enumerate(&stream_name, i) {
                        Some(c) => {
                            let tape = i.to_le_bytes();
                            self.handle(c, Some(&tape), i);
                        }
                        None => {
                            let mut r = self.res.lock().unwrap();
                            *r.discards.entry("enum-none".into()).or_insert(0) += 1;
                            r.next_index = i + 1;
                        }
                    }
                    i += 1;
                }
            }
            StreamKind::Random { cases, tape_max } => {
                let seed = fnv64(&[
                    &self.args.seed.to_le_bytes(),
                    prop.id().as_bytes(),
                    stream_name.as_bytes(),
                    &self.args.shard.to_le_bytes(),
                ]);
                let mut runner = TestRunner::new(Config {
                    rng_seed: RngSeed::Fixed(seed),
                    failure_persistence: None,
                    ..Config::default()
                });
                let strat = proptest::collection::vec(proptest::num::u8::ANY, 0..=tape_max);
                for i in 0..cases {
                    let mut tree = strat.new_tree(&mut runner).expect("tape strategy");
                    if i < self.args.skip {
                        continue;
                    }
                    let tape = tree.current();
                    let mut t = Tape::new(&tape);
                    let case = match catch_unwind(AssertUnwindSafe(|| {
                        prop.generate(&stream_name, &mut t)
                    })) {
                        Ok(c) => c,
                        Err(_) => {
                            let p = LAST_PANIC.with(|p| p.borrow_mut().take());
                            eprintln!("generator panicked: {:?} tape={}", p, hex(&tape));
                            std::process::exit(2);
                        }
                    };
                    let Some(case) = case else {
                        let mut r = self.res.lock().unwrap();
                        *r.discards.entry("gen-none".into()).or_insert(0) += 1;
                        r.next_index = i + 1;
                        continue;
                    };
                    // evaluate; on a new failure shrink the tape with proptest first
                    let (o, known) = self.eval_known(&case, i, 0, &tape);
                    match o {
                        Outcome::Fail(f) if known.is_none() => {
                            let sig = sig_of(&f);
                            let dup = {
                                let r = self.res.lock().unwrap();
                                self.seen_sigs.contains(&sig) || r.failures.len() >= 3
                            };
                            if dup {
                                let mut r = self.res.lock().unwrap();
                                r.evaluations += 1;
                                r.duplicate_failures += 1;
                                r.next_index = i + 1;
                                continue;
                            }
                            // proptest-level shrinking of the tape
                            let clause = f.clause.clone();
                            let mut best_tape = tape.clone();
                            let mut best_case = case.clone();
                            let mut best_f = f;
                            let mut iters = 0u32;
                            let shrink_t0 = Instant::now();
                            'outer: loop {
                                if !tree.simplify() {
                                    break;
                                }
                                loop {
                                    iters += 1;
                                    if iters > 1500 || shrink_t0.elapsed().as_secs() > 20 {
                                        break 'outer;
                                    }
                                    let cur = tree.current();
                                    let mut t = Tape::new(&cur);
                                    let cand = prop.generate(&stream_name, &mut t);
                                    let failing = match cand {
                                        Some(c) => {
                                            let (o, known) = self.eval_known(&c, i, 0, &cur);
                                            match o {
                                                Outcome::Fail(f2)
                                                    if known.is_none() && f2.clause == clause =>
                                                {
                                                    Some((c, f2))
                                                }
                                                _ => None,
                                            }
                                        }
                                        None => None,
                                    };
                                    if let Some((c, f2)) = failing {
                                        best_tape = cur;
                                        best_case = c;
                                        best_f = f2;
                                        break;
                                    } else if !tree.complicate() {
                                        break 'outer;
                                    }
                                }
                            }
                            self.res.lock().unwrap().shrink_evals += iters as u64;
                            // hand over to the common path (dedup, text shrink, replay file)
                            {
                                let mut r = self.res.lock().unwrap();
                                r.evaluations += 1;
                                r.next_index = i + 1;
                            }
                            self.seen_sigs.push(sig_of(&best_f));
                            let (c2, f2, _) = self.shrink(best_case, best_f, Some(&best_tape), i);
                            let sig = sig_of(&f2);
                            if !self.seen_sigs.contains(&sig) {
                                self.seen_sigs.push(sig.clone());
                            }
                            let path = write_replay(
                                prop.id(),
                                &c2,
                                &f2,
                                Some(&best_tape),
                                &stream_name,
                                self.args.seed,
                                self.args.tier,
                                true,
                            );
                            self.res.lock().unwrap().failures.push(FailRec {
                                replay: path,
                                clause: f2.clause.clone(),
                                message: f2.message.clone(),
                                facts: f2.facts.clone(),
                                sig,
                            });
                        }
                        Outcome::Fail(_) => {
                            let mut r = self.res.lock().unwrap();
                            r.evaluations += 1;
                            *r.excluded_known.entry(known.unwrap()).or_insert(0) += 1;
                            r.next_index = i + 1;
                        }
                        Outcome::Pass { nontrivial } => self.record_pass(&case, nontrivial, i),
                        Outcome::Discard(why) => {
                            let mut r = self.res.lock().unwrap();
                            *r.discards.entry(why.to_string()).or_insert(0) += 1;
                            r.next_index = i + 1;
                        }
                    }
                }
            }
        }
    }

    pub fn finish(&mut self) {
        let mut r = self.res.lock().unwrap().clone();
        for (k, v) in &self.ctx.classes {
            *r.classes.entry(k.clone()).or_insert(0) += v;
        }
        r.completed = true;
        r.wall_ms = self.t0.elapsed().as_millis() as u64;
        write_result(
            &self.args.outdir,
            &self.args.stream,
            self.args.shard,
            self.args.skip,
            &mut r,
        );
    }
}

pub fn sample_json(case: &Case) -> serde_json::Value {
    let mut v = serde_json::json!({
        "gen": case.gen,
        "input": short(&case.input, 400),
        "config": case.cfg.to_toml().replace('\n', "; "),
    });
    if !case.cursors.is_empty() {
        v["cursors"] = serde_json::json!(case.cursors);
    }
    if let Some(i2) = &case.input2 {
        v["input2"] = serde_json::json!(short(i2, 400));
    }
    if let Some(c2) = &case.cfg2 {
        v["config2"] = serde_json::json!(c2.to_toml().replace('\n', "; "));
    }
    if !case.extra.is_null() {
        let s = case.extra.to_string();
        v["extra"] = serde_json::json!(short(&s, 600));
    }
    v
}

pub fn write_result(outdir: &str, stream: &str, shard: u32, skip: u64, r: &mut WorkerResult) {
    let hp = format!("{outdir}/hashes_{stream}_{shard}_{skip}.bin");
    let mut bytes = Vec::with_capacity(r.hashes.len() * 8);
    for h in &r.hashes {
        bytes.extend_from_slice(&h.to_le_bytes());
    }
    let _ = std::fs::write(&hp, bytes);
    r.hashes_path = hp;
    let p = format!("{outdir}/res_{stream}_{shard}_{skip}.json");
    let tmp = format!("{p}.tmp");
    std::fs::write(&tmp, serde_json::to_vec(r).unwrap()).expect("write result");
    std::fs::rename(&tmp, &p).expect("rename result");
}

#[derive(Serialize, Deserialize, Clone, Debug)]
pub struct Replay {
    pub property: String,
    pub clause: String,
    pub message: String,
    pub facts: Vec<String>,
    pub case: Case,
    #[serde(default)]
    pub input_hex: String,
    #[serde(default)]
    pub tape_hex: String,
    #[serde(default)]
    pub stream: String,
    #[serde(default)]
    pub seed: u64,
    #[serde(default)]
    pub tier: String,
    #[serde(default)]
    pub shrunk: bool,
}

pub fn load_replay(path: &str) -> Result<Replay, String> {
    let s = std::fs::read_to_string(path).map_err(|e| e.to_string())?;
    serde_json::from_str(&s).map_err(|e| e.to_string())
}

#[allow(clippy::too_many_arguments)]
pub fn write_replay(
    prop: &str,
    case: &Case,
    f: &Failure,
    tape: Option<&[u8]>,
    stream: &str,
    seed: u64,
    tier: Tier,
    shrunk: bool,
) -> String {
    let dir = format!("{}/out/replays", findings::root());
    let _ = std::fs::create_dir_all(&dir);
    let rep = Replay {
        property: prop.to_string(),
        clause: f.clause.clone(),
        message: f.message.clone(),
        facts: f.facts.clone(),
        case: case.clone(),
        input_hex: if case.input.len() <= 4096 {
            hex(case.input.as_bytes())
        } else {
            String::new()
        },
        tape_hex: tape.map(hex).unwrap_or_default(),
        stream: stream.to_string(),
        seed,
        tier: tier.name().to_string(),
        shrunk,
    };
    let body = serde_json::to_string_pretty(&rep).unwrap();
    let h = fnv64(&[body.as_bytes()]);
    let path = format!("{dir}/{prop}_{:016x}.json", h);
    std::fs::write(&path, body).expect("write replay");
    path
}
