//! Capturing logger: records warn/error lines the formatter emits during a check, so oracles can
//! classify cases ("Iteration limit reached", "No solution found", ...). Worker processes are
//! single-threaded in their main loop, but the buffer is thread-local anyway.

use std::cell::RefCell;

thread_local! {
    static LOGS: RefCell<Vec<String>> = const { RefCell::new(Vec::new()) };
}

struct Cap;

impl log::Log for Cap {
    fn enabled(&self, m: &log::Metadata) -> bool {
        m.level() <= log::Level::Warn
    }
    fn log(&self, record: &log::Record) {
        if record.level() <= log::Level::Warn {
            LOGS.with(|l| {
                let mut l = l.borrow_mut();
                if l.len() < 64 {
                    let mut s = format!("{}", record.args());
                    if s.len() > 200 {
                        let mut e = 200;
                        while !s.is_char_boundary(e) {
                            e -= 1;
                        }
                        s.truncate(e);
                    }
                    l.push(s);
                }
            });
        }
    }
    fn flush(&self) {}
}

static CAP: Cap = Cap;

pub fn install() {
    let _ = log::set_logger(&CAP);
    log::set_max_level(log::LevelFilter::Warn);
}

pub fn clear() {
    LOGS.with(|l| l.borrow_mut().clear());
}

pub fn take() -> Vec<String> {
    LOGS.with(|l| std::mem::take(&mut *l.borrow_mut()))
}

pub fn any_contains(needle: &str) -> bool {
    LOGS.with(|l| l.borrow().iter().any(|s| s.contains(needle)))
}

/// Facts about what the formatter logged during the current check (for finding signatures).
pub fn facts() -> Vec<String> {
    let mut v = vec![];
    if any_contains("Iteration limit reached") {
        v.push("log:iteration-limit".to_string());
    }
    if any_contains("No solution found") {
        v.push("log:no-solution".to_string());
    }
    v
}
