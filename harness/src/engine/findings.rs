//! Known findings (DESIGN §2.6). The file is committed and never written at run time.

use serde::{Deserialize, Serialize};

#[derive(Serialize, Deserialize, Clone, Debug)]
pub struct Finding {
    pub property: String,
    pub id: String,
    /// "open" or "fixed"
    pub status: String,
    /// facts that must all be present in a violation's fact list for it to count as this finding
    #[serde(default)]
    pub signature: Vec<String>,
    /// replay file (relative to /verif)
    #[serde(default)]
    pub witness: String,
    pub what: String,
    #[serde(default)]
    pub commit: String,
}

pub struct Findings {
    pub all: Vec<Finding>,
}

pub fn root() -> String {
    std::env::var("VERIF_ROOT").unwrap_or_else(|_| "/verif".to_string())
}

impl Findings {
    pub fn load() -> Findings {
        let path = format!("{}/known_findings.json", root());
        let all = match std::fs::read_to_string(&path) {
            Ok(s) => serde_json::from_str::<Vec<Finding>>(&s).unwrap_or_else(|e| {
                eprintln!("error: cannot parse {path}: {e}");
                std::process::exit(2);
            }),
            Err(_) => vec![],
        };
        Findings { all }
    }

    pub fn open_for<'a>(&'a self, prop: &'a str) -> impl Iterator<Item = &'a Finding> + 'a {
        self.all
            .iter()
            .filter(move |f| f.property == prop && f.status == "open")
    }

    /// The open finding (if any) whose signature is a subset of `facts`.
    pub fn matching<'a>(&'a self, prop: &str, facts: &[String]) -> Option<&'a Finding> {
        self.all.iter().filter(|f| f.property == prop && f.status == "open").find(|f| {
            !f.signature.is_empty() && f.signature.iter().all(|s| facts.iter().any(|x| x == s))
        })
    }
}
