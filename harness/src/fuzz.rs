//! Entry points for the libFuzzer targets (thorough tiers). The semantic oracle runs inside the
//! target; known findings are tolerated in-target so that a campaign does not rediscover one
//! failure forever; a new failure is written as a replay file and then panics.

use std::sync::OnceLock;

use crate::engine::findings::Findings;
use crate::engine::worker::{eval, install_panic_hook, write_replay};
use crate::engine::*;
use crate::props;

struct State {
    prop: &'static dyn Prop,
    findings: Findings,
}

fn state() -> &'static State {
    static S: OnceLock<State> = OnceLock::new();
    S.get_or_init(|| {
        let id = std::env::var("VERIF_FUZZ_PROP").unwrap_or_else(|_| "C01".to_string());
        let prop = props::by_id(&id).unwrap_or_else(|| {
            eprintln!("unknown property {id}");
            std::process::abort()
        });
        logcap::install();
        install_panic_hook();
        State { prop, findings: Findings::load() }
    })
}

fn judge(case: Case, tape: &[u8], stream: &str) {
    let st = state();
    let mut ctx = Ctx::default();
    if let Outcome::Fail(f) = eval(st.prop, &case, &mut ctx) {
        if st.findings.matching(st.prop.id(), &f.facts).is_some() {
            return;
        }
        let path = write_replay(st.prop.id(), &case, &f, Some(tape), stream, 0, Tier::Thorough, false);
        eprintln!("VERIF-REPLAY {path}");
        eprintln!("VERIF-FAIL [{}] {}", f.clause, f.message);
        // restore the default hook so that libFuzzer sees the abort
        let _ = std::panic::take_hook();
        std::process::abort();
    }
}

/// bytes 0..8: configuration and cursor seeds; rest: the text (lossy UTF-8).
pub fn decode_text(data: &[u8], prop_id: &str) -> Option<Case> {
    if data.len() < 8 {
        return None;
    }
    let mut t = Tape::new(&data[..8]);
    let mut cfg = Cfg::gen_unsaturated(&mut t);
    // degenerate widths make every line run to the wrapper's iteration limit (seconds per input
    // under ASan); the proptest streams cover them
    cfg.wrap_column = cfg.wrap_column.max(30);
    let input = String::from_utf8_lossy(&data[8..]).into_owned();
    if input.len() > 4096 {
        return None;
    }
    // keep clear of the open stack-overflow finding
    if input.len() > 400 && props::c04::nesting_depth(&input) > 300 {
        return None;
    }
    let mut c = Case::text("fuzz-text", input, cfg);
    if matches!(prop_id, "C04" | "C15") {
        let mut t2 = Tape::new(&data[4..8]);
        c.cursors = crate::props::c15::gen_token_cursors(&mut t2, &c.input);
    }
    Some(c)
}

pub fn prog_stream(prop_id: &str) -> &'static str {
    match prop_id {
        "C11" => "simple",
        "C12" => "lits",
        _ => "prog",
    }
}

pub fn decode_prog(data: &[u8], prop: &dyn Prop) -> Option<Case> {
    if data.len() > 3000 {
        return None;
    }
    let mut t = Tape::new(data);
    prop.generate(prog_stream(prop.id()), &mut t)
}

pub fn text_target(data: &[u8]) {
    let st = state();
    if let Some(c) = decode_text(data, st.prop.id()) {
        judge(c, data, "fuzz-text");
    }
}

pub fn prog_target(data: &[u8]) {
    let st = state();
    if let Some(c) = decode_prog(data, st.prop) {
        judge(c, data, prog_stream(st.prop.id()));
    }
}
