//! C01 — formatting preserves every non-blank character, in order (DESIGN §5 C01).

use crate::engine::*;
use crate::gen::{common, soup};
use crate::model::nonblank::*;
use crate::model::refscan;

pub struct C01Prop;
pub static C01: C01Prop = C01Prop;

pub const KEYWORDS: &[&str] = &[
    "absolute", "abstract", "align", "and", "array", "as", "asm", "assembler", "at", "automated",
    "begin", "case", "cdecl", "class", "const", "constructor", "contains", "default", "delayed",
    "deprecated", "destructor", "dispid", "dispinterface", "div", "do", "downto", "dynamic",
    "else", "end", "except", "experimental", "export", "exports", "external", "far", "file",
    "final", "finalization", "finally", "for", "forward", "function", "goto", "helper", "if",
    "implementation", "implements", "in", "index", "inherited", "initialization", "inline",
    "interface", "is", "label", "library", "local", "message", "mod", "name", "near", "nil",
    "nodefault", "not", "object", "of", "on", "operator", "or", "out", "overload", "override",
    "package", "packed", "pascal", "platform", "private", "procedure", "program", "property",
    "protected", "public", "published", "raise", "read", "readonly", "record", "reference",
    "register", "reintroduce", "repeat", "requires", "resident", "resourcestring", "safecall",
    "sealed", "set", "shl", "shr", "static", "stdcall", "stored", "strict", "string", "then",
    "threadvar", "to", "try", "type", "unit", "unsafe", "until", "uses", "var", "varargs",
    "virtual", "while", "winapi", "with", "write", "writeonly", "xor",
];

pub fn is_keyword(word: &str) -> bool {
    word.len() <= 14 && {
        let l = word.to_ascii_lowercase();
        KEYWORDS.binary_search(&l.as_str()).is_ok()
    }
}

/// Which case change (if any) is permitted for the ASCII letter at byte offset `i` of the input:
/// Some(true) = may become lower case (inside a word token that equals one of the 122 keywords),
/// Some(false) = may become upper case (inside the name of a `{$`/`(*$` directive).
/// Tokens come from the reference scanner, not from the code under test.
fn permitted_change(input: &str, toks: &[refscan::Tok], i: usize) -> Option<bool> {
    let k = toks.partition_point(|t| t.end <= i);
    let t = toks.get(k)?;
    if i < t.start {
        return None;
    }
    match t.kind {
        refscan::Kind::Ident | refscan::Kind::Keyword => {
            is_keyword(t.text(input)).then_some(true)
        }
        refscan::Kind::DirectiveCond | refscan::Kind::DirectiveCompiler => {
            let b = input.as_bytes();
            let name_start = t.start + if b[t.start] == b'{' { 2 } else { 3 };
            let mut name_end = name_start;
            while name_end < t.end && (b[name_end].is_ascii_alphanumeric() || b[name_end] == b'_') {
                name_end += 1;
            }
            (i >= name_start && i < name_end).then_some(false)
        }
        _ => None,
    }
}

/// The C01 oracle proper; shared with other properties that rely on the position map.
pub fn check_nonblank(input: &str, out: &str) -> Result<bool, Failure> {
    let a = nonblank(input);
    let b = nonblank(out);
    let n = a.len().min(b.len());
    let mut case_changed = false;
    let mut toks: Option<Vec<refscan::Tok>> = None;
    for k in 0..n {
        let (ia, ca) = a[k];
        let (_ib, cb) = b[k];
        if ca == cb {
            continue;
        }
        if ca.is_ascii_alphabetic() && cb.is_ascii_alphabetic() && ca.eq_ignore_ascii_case(&cb) {
            case_changed = true;
            let lowered = cb.is_ascii_lowercase();
            let toks = toks.get_or_insert_with(|| refscan::scan(input));
            if permitted_change(input, toks, ia) == Some(lowered) {
                continue;
            }
            return Err(Failure::new(
                "case-change",
                format!(
                    "letter case changed outside a keyword / directive name: non-blank #{k} '{ca}' -> '{cb}' at input offset {ia}; context {:?}",
                    ctx_of(input, ia)
                ),
            )
            .fact(if lowered { "lowered" } else { "uppered" }));
        }
        return Err(Failure::new(
            "sequence",
            format!(
                "non-blank character #{k} differs: input has {:?} (offset {ia}), output has {:?}; input context {:?}",
                ca,
                cb,
                ctx_of(input, ia)
            ),
        ));
    }
    if a.len() != b.len() {
        let (what, off) = if a.len() > b.len() {
            ("dropped", a[n].0)
        } else {
            ("invented", b[n].0)
        };
        return Err(Failure::new(
            "sequence",
            format!(
                "output has {} non-blank characters, input {}; first {what} one at offset {off}",
                b.len(),
                a.len()
            ),
        )
        .fact(what));
    }
    Ok(case_changed)
}

fn ctx_of(s: &str, i: usize) -> String {
    let mut a = i.saturating_sub(20);
    while !s.is_char_boundary(a) {
        a -= 1;
    }
    let mut e = (i + 20).min(s.len());
    while !s.is_char_boundary(e) {
        e += 1;
    }
    s[a..e].to_string()
}

impl Prop for C01Prop {
    fn id(&self) -> &'static str {
        "C01"
    }
    fn rule(&self) -> String {
        "Streams: sigma3 = every sequence of 3 lexemes over the 109-lexeme alphabet; sigma2sep = every pair x {\"\", \" \", newline} separators x 4 configurations; random (proptest tapes): token soup, arbitrary UTF-8 text, lossy-decoded bytes, mutated/spliced repository seeds, directive-heavy and nested inputs, each x generated configuration; cli = 4-24 seed files plus up to two 66-200 kB files dense in multi-byte characters, formatted in place by one invocation of the real binary (1-4 worker threads), each file judged separately. Oracle: the sequences of non-blank characters (blank = <= U+0020 or U+3000) of input and output have equal length and agree position-wise up to ASCII case; where the case differs, the input letter lies (per the independent reference scanner) in a word token equal to one of the 122 keywords and became lower case, or in the name of a `{$` / `(*$` directive token and became upper case. Non-trivial = at least 2 tokens and output != input; distinct by hash of (input, configuration)."
            .into()
    }
    fn assumptions(&self) -> Vec<String> {
        vec!["'a word that can be a Delphi keyword' is read as: a word token (by the reference scanner's Delphi lexical rules) equal to one of the 122 keywords ignoring case, in any context".into()]
    }
    fn streams(&self, tier: Tier) -> Vec<Stream> {
        let q = tier == Tier::Quick;
        let mut v = vec![
            Stream::exhaustive("sigma3", soup::space_size(3)),
            Stream::exhaustive("sigma2sep", soup::space_size(2) * 12),
            Stream::random("any", if q { 6000 } else { 80000 }, 400),
            Stream::random("any_chk", if q { 1000 } else { 10000 }, 400).chk(),
            Stream::random("big", if q { 40 } else { 1500 }, 3000),
            // the same oracle through the real binary: several files in one invocation
            Stream::random("cli", if q { 6 } else { 60 }, 160),
        ];
        if !q {
            v.push(Stream::exhaustive("sigma4", soup::space_size(4)));
        }
        v
    }
    fn generate(&self, stream: &str, t: &mut Tape) -> Option<Case> {
        let stream = stream.trim_end_matches("_chk");
        let cfg = Cfg::gen(t);
        if stream == "cli" {
            let all = crate::gen::seeds::texts();
            let mut big: Vec<String> = vec![];
            // large files dense in multi-byte characters (the output is written in pieces by the
            // I/O layer; every alignment of a character against a piece boundary should occur)
            for _ in 0..t.below(3) {
                let pad = "x".repeat(t.below(4) as usize);
                let line = *t.pick(&[
                    "  S  :=  'äöü'  +  Größe ;   //  注释注释注释注释注释注释注释注释注释注释注释注释\n",
                    "Foo( 'ЖЖЖЖЖЖЖЖЖЖЖЖ' ,  Ünïcödé ) ; { 😀😀😀😀😀😀😀😀😀😀😀😀😀😀😀😀 }\n",
                    "//日本語日本語日本語日本語日本語日本語日本語日本語日本語日本語日本語日本語日本語\n",
                ]);
                let reps = (66_000 + t.below(140_000) as usize) / line.len() + 1;
                big.push(format!("{pad};\n{}", line.repeat(reps)));
            }
            let n = 4 + t.below(20);
            let mut files: Vec<String> = (0..n)
                .map(|_| {
                    let mut s = all[t.below(all.len() as u32) as usize].1.clone();
                    if t.chance(1, 3) {
                        s = s.replace(' ', "  ").replace('\n', "\n\n");
                    }
                    s
                })
                .collect();
            files.extend(big);
            let mut c = Case::text("cli", String::new(), cfg);
            c.extra = serde_json::json!({"cli_files": files, "threads": *t.pick(&[1, 1, 2, 4])});
            return Some(c);
        }
        let (input, g) = match stream {
            "any" => common::gen_any_input(t, 80),
            "big" => common::gen_any_input(t, 1200),
            _ => return None,
        };
        Some(Case::text(g, input, cfg))
    }
    fn enumerate(&self, stream: &str, index: u64) -> Option<Case> {
        match stream {
            "sigma3" => Some(Case::text(
                "sigma3",
                soup::render_indices(&soup::decode(index, 3), " "),
                Cfg::default(),
            )),
            "sigma4" => Some(Case::text(
                "sigma4",
                soup::render_indices(&soup::decode(index, 4), " "),
                Cfg::default(),
            )),
            "sigma2sep" => {
                let pair = index / 12;
                let r = (index % 12) as usize;
                let sep = ["", " ", "\n"][r % 3];
                let cfg = match r / 3 {
                    0 => Cfg::default(),
                    1 => Cfg { wrap_column: 10, begin_always_wrap: true, ..Cfg::default() },
                    2 => Cfg { use_tabs: true, crlf: true, ..Cfg::default() },
                    _ => Cfg { wrap_column: 1, format_multiline_strings: false, ..Cfg::default() },
                };
                Some(Case::text(
                    "sigma2sep",
                    soup::render_indices(&soup::decode(pair, 2), sep),
                    cfg,
                ))
            }
            _ => None,
        }
    }
    fn text_shrink(&self) -> bool {
        true
    }
    fn hang_limit(&self, case: &Case) -> Option<u64> {
        if case.extra.get("cli_files").is_some() || case.input.len() > 256 {
            None
        } else {
            Some(10)
        }
    }
    fn check(&self, case: &Case, ctx: &mut Ctx) -> Outcome {
        if let Some(files) = case.extra.get("cli_files").and_then(|v| v.as_array()) {
            use crate::engine::cli;
            cli::check_no_config_above();
            let sc = cli::Scratch::new();
            let mut args = case.cfg.to_cli();
            for (i, f) in files.iter().enumerate() {
                let name = format!("f{i:02}.pas");
                sc.write(&name, f.as_str().unwrap_or("").as_bytes());
                args.push(name);
            }
            let threads = case.extra.get("threads").and_then(|v| v.as_u64()).unwrap_or(1);
            let r = cli::run_pasfmt(&args, &sc.dir, None, &[("RAYON_NUM_THREADS", threads.to_string())]);
            if !r.ok() {
                return Outcome::Fail(Failure::new("cli-exit", format!("pasfmt exited {:?} on plain UTF-8 files: {}", r.code, short(&r.stderr_text(), 200))));
            }
            for (i, f) in files.iter().enumerate() {
                let now = String::from_utf8_lossy(&std::fs::read(sc.path(&format!("f{i:02}.pas"))).unwrap_or_default()).into_owned();
                if let Err(fl) = check_nonblank(f.as_str().unwrap_or(""), &now) {
                    return Outcome::Fail(fl.fact("via-cli").fact(format!("threads:{threads}")));
                }
            }
            ctx.class("via-cli");
            return Outcome::Pass { nontrivial: true };
        }
        let out = format_with(&case.cfg, &case.input);
        match check_nonblank(&case.input, &out) {
            Err(f) => Outcome::Fail(f),
            Ok(case_changed) => {
                ctx.class_if(case_changed, "case-normalised");
                let changed = out != case.input;
                ctx.class_if(changed, "output!=input");
                let ntok = nonblank_chars(&case.input).take(3).count();
                Outcome::Pass {
                    nontrivial: changed && ntok >= 2 && case.input.split_whitespace().count() >= 2,
                }
            }
        }
    }
}
