//! C17 — files are written back in the encoding and with the BOM they were read in (DESIGN §5 C17).

use encoding_rs::Encoding;
use serde::{Deserialize, Serialize};

use crate::engine::cli::{self, Scratch};
use crate::engine::*;

pub struct C17Prop;
pub static C17: C17Prop = C17Prop;

const LABELS: &[&str] = &[
    "utf-8", "utf-16le", "utf-16be", "windows-1250", "windows-1251", "windows-1252", "windows-1253",
    "windows-1254", "windows-1255", "windows-1256", "windows-1257", "windows-1258", "windows-874",
    "iso-8859-2", "iso-8859-3", "iso-8859-4", "iso-8859-5", "iso-8859-6", "iso-8859-7", "iso-8859-8",
    "iso-8859-10", "iso-8859-13", "iso-8859-14", "iso-8859-15", "iso-8859-16", "koi8-r", "koi8-u",
    "ibm866", "macintosh", "x-mac-cyrillic", "shift_jis", "euc-jp", "iso-2022-jp", "gbk", "gb18030",
    "big5", "euc-kr", "latin1", "ascii", "cp1252", "sjis", "utf8", "unicode-1-1-utf-8", "csbig5", "korean",
];

const CHAR_POOL: &[char] = &[
    'é', 'ß', 'ñ', 'ü', 'Ø', 'ž', 'ł', 'ő', 'Ж', 'я', 'ї', 'λ', 'Ω', 'ש', 'ب', 'ก', '中', '文', '日',
    '本', 'あ', 'カ', '한', '글', '\u{3000}', '€', '‰', '™', '\u{a0}', 'ı', 'İ', '😀', '𝔘', '\u{80}', 'ÿ',
    '¤', '½', 'ѓ', 'ў', 'ґ', '│', '╬', '√', 'ﬁ',
    // supplementary planes 2, 3, 14, 16 and the ends of plane 1 (surrogate arithmetic)
    '\u{20BB7}', '\u{2A6D6}', '\u{2F800}', '\u{30000}', '\u{E0041}', '\u{10FFFD}', '\u{10000}', '\u{1FFFD}', '\u{FFFD}', '\u{FFFF}', '\u{D7FF}', '\u{E000}',
];

#[derive(Serialize, Deserialize, Clone, Debug)]
pub struct Scn {
    pub label: String,
    /// "none", "utf8", "utf16le", "utf16be"
    pub bom: String,
    pub text: String,
    /// raw malformed bytes (hex) to use instead of an encoded text, or empty
    pub malformed_hex: String,
    pub via_stdin: bool,
}

/// My own UTF-16 encoder (not `str::encode_utf16`).
pub fn utf16(text: &str, le: bool) -> Vec<u8> {
    let mut v = Vec::with_capacity(text.len() * 2);
    let mut put = |u: u16| {
        if le {
            v.push((u & 0xff) as u8);
            v.push((u >> 8) as u8);
        } else {
            v.push((u >> 8) as u8);
            v.push((u & 0xff) as u8);
        }
    };
    for c in text.chars() {
        let cp = c as u32;
        if cp < 0x10000 {
            put(cp as u16);
        } else {
            let x = cp - 0x10000;
            put(0xD800 + (x >> 10) as u16);
            put(0xDC00 + (x & 0x3ff) as u16);
        }
    }
    v
}

/// The encoding that decides: BOM first, then the configured label.
fn deciding(scn: &Scn) -> Option<&'static Encoding> {
    match scn.bom.as_str() {
        "utf8" => Some(encoding_rs::UTF_8),
        "utf16le" => Some(encoding_rs::UTF_16LE),
        "utf16be" => Some(encoding_rs::UTF_16BE),
        _ => Encoding::for_label(scn.label.as_bytes()),
    }
}

fn bom_bytes(b: &str) -> &'static [u8] {
    match b {
        "utf8" => &[0xEF, 0xBB, 0xBF],
        "utf16le" => &[0xFF, 0xFE],
        "utf16be" => &[0xFE, 0xFF],
        _ => &[],
    }
}

/// Encode with the model encoder; None if the text is not representable.
fn encode(enc: &'static Encoding, text: &str) -> Option<Vec<u8>> {
    if enc == encoding_rs::UTF_8 {
        Some(text.as_bytes().to_vec())
    } else if enc == encoding_rs::UTF_16LE {
        Some(utf16(text, true))
    } else if enc == encoding_rs::UTF_16BE {
        Some(utf16(text, false))
    } else {
        let (b, _, bad) = enc.encode(text);
        if bad {
            None
        } else {
            Some(b.into_owned())
        }
    }
}

fn representable(enc: &'static Encoding, text: &str) -> bool {
    match encode(enc, text) {
        None => false,
        Some(b) => {
            let (d, bad) = enc.decode_without_bom_handling(&b);
            !bad && d == text && Encoding::for_bom(&b).is_none()
        }
    }
}

/// As `representable`, for a text that follows an explicit BOM: it may itself start with U+FEFF.
fn representable_after_bom(enc: &'static Encoding, text: &str) -> bool {
    match encode(enc, text) {
        None => false,
        Some(b) => {
            let (d, bad) = enc.decode_without_bom_handling(&b);
            !bad && d == text
        }
    }
}

fn find_malformed(enc: &'static Encoding) -> Option<Vec<u8>> {
    let candidates: [&[u8]; 12] = [
        &[b'a', 0xFF, b'b'],
        &[b'a', 0x81],
        &[b'a', 0x80, b'b'],
        &[0xC3],
        &[0xE3, 0x80],
        &[0x00, 0xD8, 0x61, 0x00],
        &[0xD8, 0x00, 0x00, 0x61],
        &[0x61, 0x00, 0x62],
        &[0x1B, 0x24, 0x42, 0x21],
        &[0xFD, 0xFE, b'x'],
        &[0x8F, 0x20],
        &[0xA0, 0x20],
    ];
    for c in candidates {
        let (_, bad) = enc.decode_without_bom_handling(c);
        if bad {
            let mut v = b"x := 1;\n".to_vec();
            if enc == encoding_rs::UTF_16LE || enc == encoding_rs::UTF_16BE {
                v = utf16("x := 1;\n", enc == encoding_rs::UTF_16LE);
            }
            v.extend_from_slice(c);
            let (_, bad2) = enc.decode_without_bom_handling(&v);
            if bad2 {
                return Some(v);
            }
        }
    }
    None
}

impl Prop for C17Prop {
    fn id(&self) -> &'static str {
        "C17"
    }
    fn rule(&self) -> String {
        "Streams (proptest tapes): mixed = 20-60 files with BOM-selected encodings and one malformed file in one invocation (1-4 worker threads): every good file still equals BOM + E(format(text)) and the malformed one is untouched; enc = scenarios over 45 encoding labels (UTF-8, UTF-16LE/BE, windows-125x/874, ISO-8859-x, KOI8, IBM866, Mac, Shift_JIS, EUC-JP, ISO-2022-JP, GBK, gb18030, Big5, EUC-KR and aliases) x BOM {none, UTF-8, UTF-16LE, UTF-16BE} (a BOM overrides the configured encoding) x texts = small unformatted programs whose identifiers, strings and comments use characters from a pool (Latin, Cyrillic, Greek, Hebrew, Arabic, Thai, CJK, kana, hangul, U+3000, astral) kept only when representable in the deciding encoding, ASCII-only texts included x {file rewritten in place, stdin -> stdout} x generated configuration; malformed = per encoding a byte sequence the decoder rejects. Oracle: the bytes written equal BOM + E(format_lib(text)) with E = a hand-written UTF-8/UTF-16 encoder or encoding_rs for legacy encodings; malformed input: exit non-zero, file bytes and mtime untouched, nothing on stdout. Non-trivial = a character >= U+0080 survives into the output or a BOM is present; distinct by hash of the scenario."
            .into()
    }
    fn assumptions(&self) -> Vec<String> {
        vec!["texts are generated so that decode(encode(t)) == t in the deciding encoding".into()]
    }
    fn streams(&self, tier: Tier) -> Vec<Stream> {
        let q = tier == Tier::Quick;
        vec![
            Stream::random("enc", if q { 300 } else { 4000 }, 200),
            Stream::random("malformed", if q { 20 } else { 200 }, 32),
            Stream::random("mixed", if q { 15 } else { 200 }, 200),
        ]
    }
    fn generate(&self, stream: &str, t: &mut Tape) -> Option<Case> {
        if stream == "mixed" {
            // several files with different BOM-selected encodings in ONE invocation, a malformed
            // one among them: every good file is still written in its own encoding
            let cfg = Cfg::gen_unsaturated(t);
            // enough files that a worker's reused input buffer sees several files in a row
            let n = 20 + t.below(40);
            let bad_at = t.below(n / 2 + 1);
            let mut files = vec![];
            for i in 0..n {
                let bom = (*t.pick(&["none", "utf8", "utf16le", "utf16be"])).to_string();
                let ch = *t.pick(&['é', 'Ж', '中', '😀', 'x']);
                let text = format!("procedure   P{i};\nbegin\n  S:='{ch}{ch}'  +  Foo( {i},1 ,2);   //{ch}note\nend;\n").repeat(1 + t.below(6) as usize);
                files.push(serde_json::json!({"bom": bom, "text": text, "bad": i == bad_at}));
            }
            let mut c = Case::text("mixed", String::new(), cfg);
            c.extra = serde_json::json!({"mixed": files, "threads": *t.pick(&[1, 1, 2, 4])});
            return Some(c);
        }
        let cfg = Cfg::gen_unsaturated(t);
        let label = t.pick_str(LABELS).to_string();
        let bom = if t.chance(2, 3) { "none" } else { *t.pick(&["utf8", "utf16le", "utf16be"]) }.to_string();
        let via_stdin = t.chance(1, 3);
        let mut scn = Scn { label, bom, text: String::new(), malformed_hex: String::new(), via_stdin };
        let enc = deciding(&scn)?;
        if stream == "malformed" {
            let mut m = find_malformed(enc)?;
            match t.below(4) {
                // odd number of bytes / truncated code unit at the very end
                0 if enc == encoding_rs::UTF_16LE || enc == encoding_rs::UTF_16BE => {
                    let mut v = utf16("procedure P;\nbegin\n  Foo;\nend;\n", enc == encoding_rs::UTF_16LE);
                    v.push(*t.pick(&[0x20u8, 0x00, 0x61]));
                    m = v;
                }
                // a large file with the malformed bytes early on, followed by kilobytes of
                // valid text (decoders that work block-wise)
                0 | 1 => {
                    let unit = "procedure   Q;\nbegin\n  Foo( 1,2 );\nend;\n";
                    let valid = unit.repeat(200 + t.below(2000) as usize);
                    let body = encode(enc, &valid)?;
                    let mut at = t.below((body.len() / 2) as u32) as usize;
                    at -= at % 2; // stay on a code-unit boundary for UTF-16
                    let mut v = body[..at].to_vec();
                    v.extend_from_slice(&m);
                    if v.len() % 2 == 1 && (enc == encoding_rs::UTF_16LE || enc == encoding_rs::UTF_16BE) {
                        v.push(0x20);
                    }
                    v.extend_from_slice(&body[at..]);
                    let (_, bad) = enc.decode_without_bom_handling(&v);
                    if bad {
                        m = v;
                    }
                }
                _ => {}
            }
            let (_, bad) = enc.decode_without_bom_handling(&m);
            if !bad {
                return None;
            }
            scn.malformed_hex = hex(&m);
        } else {
            // a small program with non-ASCII characters the encoding can represent
            let pick = |t: &mut Tape| -> String {
                let mut s = String::new();
                let n = t.below(4);
                for _ in 0..n {
                    let c = *t.pick(CHAR_POOL);
                    if representable(enc, &c.to_string()) {
                        s.push(c);
                    }
                }
                s
            };
            let ascii_only = t.chance(1, 4);
            let (a, b, c, d) = if ascii_only {
                (String::new(), String::new(), String::new(), String::new())
            } else {
                (pick(t), pick(t), pick(t), pick(t))
            };
            let a_id: String = a.chars().filter(|ch| *ch != '\u{3000}' && *ch != '\u{a0}' || true).collect();
            let id = format!("N{}", a_id.replace('\u{3000}', ""));
            scn.text = format!(
                "procedure   {id};\nbegin\n  S:='{b}text'  +  Foo( {id},1 ,2);   //{c}note\n  if  X   then   Bar;{{ {d} }}\nend;\n"
            );
            // other shapes of text: grammar-generated programs, texts that start or end
            // unusually, U+FEFF as an ordinary character (after a BOM it is text, not a BOM)
            match t.below(12) {
                0 | 1 => {
                    if let Some(w) = crate::props::wf::wf_generate("prog", t, true) {
                        if representable(enc, &w.input) {
                            scn.text = w.input;
                        }
                    }
                }
                2 => scn.text = format_with(&cfg, &scn.text), // already formatted
                3 => scn.text = format!("//{c}first line is a comment\n{}", scn.text),
                4 => scn.text = scn.text.trim_end().to_string(), // no final line break
                5 => scn.text = scn.text.replace('\n', "\r\n"),
                6 if scn.bom != "none" && representable_after_bom(enc, "\u{feff}") => {
                    // doubled BOM: the second U+FEFF is the first character of the text
                    scn.text = format!("{}{}", '\u{feff}', scn.text);
                }
                7 if representable(enc, "\u{feff}") => {
                    scn.text = scn.text.replacen("begin", "begin  X\u{feff}Y;", 1);
                }
                8 => scn.text = String::new(),
                9 => scn.text = format!("{}{}", scn.text, scn.text.repeat(t.below(30) as usize)),
                _ => {}
            }
            let ok = if scn.bom != "none" { representable_after_bom(enc, &scn.text) } else { representable(enc, &scn.text) };
            if !ok {
                return None;
            }
        }
        let mut c = Case::text("enc", String::new(), cfg);
        c.extra = serde_json::to_value(scn).unwrap();
        Some(c)
    }
    fn hang_limit(&self, _case: &Case) -> Option<u64> {
        None
    }
    fn check(&self, case: &Case, ctx: &mut Ctx) -> Outcome {
        if let Some(files) = case.extra.get("mixed").and_then(|v| v.as_array()) {
            cli::check_no_config_above();
            let sc = Scratch::new();
            let mut args = case.cfg.to_cli();
            let mut expect: Vec<(std::path::PathBuf, Vec<u8>, bool)> = vec![];
            for (i, f) in files.iter().enumerate() {
                let bom_name = f["bom"].as_str().unwrap_or("none").to_string();
                let text = f["text"].as_str().unwrap_or("").to_string();
                let bad = f["bad"].as_bool().unwrap_or(false);
                let scn = Scn { label: "utf-8".into(), bom: bom_name.clone(), text: text.clone(), malformed_hex: String::new(), via_stdin: false };
                let enc = deciding(&scn).unwrap();
                let mut bytes = bom_bytes(&bom_name).to_vec();
                let mut want = bytes.clone();
                if bad {
                    bytes.extend(find_malformed(enc).unwrap_or_else(|| vec![0xFF]));
                    want = bytes.clone();
                } else {
                    bytes.extend(encode(enc, &text).unwrap());
                    want.extend(encode(enc, &format_with(&case.cfg, &text)).unwrap());
                }
                let name = format!("m{i:02}.pas");
                let p = sc.write(&name, &bytes);
                args.push(name);
                expect.push((p, want, bad));
            }
            let threads = case.extra.get("threads").and_then(|v| v.as_u64()).unwrap_or(1);
            let r = cli::run_pasfmt(&args, &sc.dir, None, &[("RAYON_NUM_THREADS", threads.to_string())]);
            if r.ok() {
                return Outcome::Fail(Failure::new("mixed-exit", "a batch with a malformed file exited 0".into()));
            }
            for (p, want, bad) in &expect {
                let now = std::fs::read(p).unwrap_or_default();
                if &now != want {
                    return Outcome::Fail(
                        Failure::new(
                            "mixed-bytes",
                            format!(
                                "{}: {} after a batch that contains a malformed file ({} bytes on disk, {} expected); stderr {:?}",
                                p.file_name().unwrap().to_string_lossy(),
                                if *bad { "the malformed file was rewritten" } else { "not written as BOM + encode(format(decode))" },
                                now.len(),
                                want.len(),
                                short(&r.stderr_text(), 200)
                            ),
                        )
                        .fact(format!("threads:{threads}")),
                    );
                }
            }
            ctx.class("mixed-batch");
            return Outcome::Pass { nontrivial: true };
        }
        let Ok(scn) = serde_json::from_value::<Scn>(case.extra.clone()) else {
            return Outcome::Discard("no-scenario");
        };
        cli::check_no_config_above();
        let Some(enc) = deciding(&scn) else { return Outcome::Discard("unknown-label") };
        let mut args = case.cfg.to_cli();
        args.push(format!("-Cencoding={}", scn.label));
        let sc = Scratch::new();
        let fail = |clause: &str, msg: String| {
            Outcome::Fail(
                Failure::new(clause, msg)
                    .fact(format!("enc:{}", enc.name()))
                    .fact(format!("bom:{}", scn.bom))
                    .fact(if scn.via_stdin { "via:stdin" } else { "via:file" }),
            )
        };
        let bom = bom_bytes(&scn.bom);
        if !scn.malformed_hex.is_empty() {
            let mut bytes = bom.to_vec();
            bytes.extend(unhex(&scn.malformed_hex));
            if scn.via_stdin {
                let r = cli::run_pasfmt(&args, &sc.dir, Some(&bytes), &[]);
                if r.ok() || !r.stdout.is_empty() {
                    return fail("malformed-accepted", format!("malformed {} input on stdin: exit {:?}, {} bytes on stdout", enc.name(), r.code, r.stdout.len()));
                }
            } else {
                let p = sc.write("m.pas", &bytes);
                let old = cli::age(&p);
                let mut a = args.clone();
                a.push("m.pas".into());
                let r = cli::run_pasfmt(&a, &sc.dir, None, &[]);
                let now = std::fs::read(&p).unwrap_or_default();
                if r.ok() || now != bytes || cli::mtime(&p) != Some(old) || !r.stdout.is_empty() {
                    return fail(
                        "malformed-accepted",
                        format!(
                            "file malformed in {}: exit {:?}, file {} (mtime {}), {} bytes on stdout",
                            enc.name(),
                            r.code,
                            if now == bytes { "untouched" } else { "REWRITTEN" },
                            if cli::mtime(&p) == Some(old) { "kept" } else { "changed" },
                            r.stdout.len()
                        ),
                    );
                }
            }
            ctx.class("malformed-rejected");
            return Outcome::Pass { nontrivial: true };
        }
        let Some(body) = encode(enc, &scn.text) else { return Outcome::Discard("not-representable") };
        let mut bytes = bom.to_vec();
        bytes.extend(&body);
        let formatted = format_with(&case.cfg, &scn.text);
        let Some(want_body) = encode(enc, &formatted) else { return Outcome::Discard("result-not-representable") };
        let mut want = bom.to_vec();
        want.extend(&want_body);
        let got = if scn.via_stdin {
            let r = cli::run_pasfmt(&args, &sc.dir, Some(&bytes), &[]);
            if !r.ok() {
                return fail("rejected", format!("stdin in {} rejected: exit {:?}: {}", enc.name(), r.code, short(&r.stderr_text(), 200)));
            }
            r.stdout
        } else {
            let p = sc.write("f.pas", &bytes);
            let mut a = args.clone();
            a.push("f.pas".into());
            let r = cli::run_pasfmt(&a, &sc.dir, None, &[]);
            if !r.ok() {
                return fail("rejected", format!("file in {} rejected: exit {:?}: {}", enc.name(), r.code, short(&r.stderr_text(), 200)));
            }
            std::fs::read(&p).unwrap_or_default()
        };
        if got != want {
            let d = got.iter().zip(&want).position(|(a, b)| a != b).unwrap_or(got.len().min(want.len()));
            return fail(
                "bytes",
                format!(
                    "bytes written differ from BOM + encode(format(decode(input))) in {}: {} vs {} bytes, first difference at {d}: got {} want {}",
                    enc.name(),
                    got.len(),
                    want.len(),
                    hex(&got[d.saturating_sub(2)..(d + 6).min(got.len())]),
                    hex(&want[d.saturating_sub(2)..(d + 6).min(want.len())])
                ),
            );
        }
        ctx.class(&format!("enc:{}", enc.name()));
        ctx.class(&format!("bom:{}", scn.bom));
        ctx.class_if(scn.text.starts_with('\u{feff}'), "text-starts-with-U+FEFF-after-BOM");
        ctx.class_if(scn.text.is_empty(), "empty-text");
        ctx.class_if(scn.text.len() > 2000, "text>2000-bytes");
        let nonascii = formatted.chars().any(|c| c as u32 >= 0x80);
        ctx.class_if(nonascii, "non-ascii-survives");
        Outcome::Pass { nontrivial: nonascii || !bom.is_empty() }
    }
}
