//! C14 — parsing yields well-formed logical lines that cover every token (DESIGN §5 C14).

use pasfmt_core::prelude::*;

use crate::engine::*;
use crate::gen::{common, soup};

pub struct C14Prop;
pub static C14: C14Prop = C14Prop;

pub struct ParseFacts {
    pub tokens: usize,
    pub lines: usize,
    pub child_lines: usize,
    pub conditionals: usize,
}

/// The all-input clauses. `well_formed` adds the parent / end-of-file clauses.
pub fn check_lines(input: &str, well_formed: bool) -> Result<ParseFacts, Failure> {
    let raw = DelphiLexer {}.lex(input);
    let conditionals = raw
        .iter()
        .filter(|t| matches!(t.get_token_type(), RawTokenType::ConditionalDirective(_)))
        .count();
    let (lines, tokens) = DelphiLogicalLineParser {}.parse(raw);
    let n = tokens.len();
    let mut cover = vec![0u32; n];
    let mut child_lines = 0;
    for (li, line) in lines.iter().enumerate() {
        let toks = line.get_tokens();
        if toks.is_empty() {
            return Err(Failure::new(
                "empty-line",
                format!("logical line {li} ({:?}) has no tokens", line.get_line_type()),
            ));
        }
        let mut prev: Option<usize> = None;
        for &t in toks {
            if t >= n {
                return Err(Failure::new(
                    "index-range",
                    format!("logical line {li} lists token index {t} but there are {n} tokens"),
                ));
            }
            if let Some(p) = prev {
                if t <= p {
                    return Err(Failure::new(
                        "order",
                        format!("logical line {li} lists token {t} after {p} (not strictly increasing)"),
                    ));
                }
            }
            prev = Some(t);
            cover[t] += 1;
        }
        if line.get_parent().is_some() {
            child_lines += 1;
        }
    }
    for (t, c) in cover.iter().enumerate() {
        if *c == 0 {
            return Err(Failure::new(
                "coverage",
                format!(
                    "token {t} {:?} ({:?}) belongs to no logical line",
                    short(tokens[t].get_content(), 40),
                    tokens[t].get_token_type()
                ),
            )
            .fact(format!("uncovered:{}", kind_name(tokens[t].get_token_type()))));
        }
        if *c > 1 && conditionals == 0 {
            return Err(Failure::new(
                "duplicate",
                format!(
                    "token {t} {:?} belongs to {c} logical lines although the input has no conditional directive",
                    short(tokens[t].get_content(), 40)
                ),
            ));
        }
    }
    if well_formed {
        let mut eof_lines = 0;
        for (li, line) in lines.iter().enumerate() {
            if let Some(p) = line.get_parent() {
                if p.line_index >= li {
                    return Err(Failure::new(
                        "parent-order",
                        format!("line {li} has parent line {} which does not precede it", p.line_index),
                    ));
                }
                if !lines[p.line_index].get_tokens().contains(&p.global_token_index) {
                    return Err(Failure::new(
                        "parent-token",
                        format!(
                            "line {li}: parent line {} does not contain the parent token {}",
                            p.line_index, p.global_token_index
                        ),
                    ));
                }
            }
            let has_eof = line
                .get_tokens()
                .iter()
                .any(|&t| tokens[t].get_token_type() == TokenType::Eof);
            if line.get_line_type() == LogicalLineType::Eof || has_eof {
                eof_lines += 1;
                if line.get_tokens().len() != 1 || *line.get_tokens() != vec![n - 1] || line.get_line_type() != LogicalLineType::Eof {
                    return Err(Failure::new(
                        "eof-line",
                        format!(
                            "line {li} ({:?}) holds the end-of-file token together with other tokens, or is an Eof line without it: {:?}",
                            line.get_line_type(),
                            line.get_tokens()
                        ),
                    ));
                }
            }
        }
        if eof_lines != 1 {
            return Err(Failure::new("eof-line", format!("{eof_lines} end-of-file lines")));
        }
    }
    Ok(ParseFacts { tokens: n, lines: lines.len(), child_lines, conditionals })
}

fn kind_name(t: TokenType) -> &'static str {
    match t {
        TokenType::Op(_) => "op",
        TokenType::Identifier => "ident",
        TokenType::Keyword(_) => "keyword",
        TokenType::TextLiteral(_) => "text",
        TokenType::NumberLiteral(_) => "number",
        TokenType::ConditionalDirective(_) => "conditional",
        TokenType::CompilerDirective => "directive",
        TokenType::Comment(_) => "comment",
        TokenType::Eof => "eof",
        TokenType::Unknown => "unknown",
    }
}

impl Prop for C14Prop {
    fn id(&self) -> &'static str {
        "C14"
    }
    fn rule(&self) -> String {
        "Streams: sigma3 = every sequence of 3 lexemes over the 109-lexeme alphabet; sigma2sep = every pair x 3 separators; random (proptest tapes) = soup / arbitrary UTF-8 / mutated seeds / directive-heavy / nested inputs; prog = grammar-generated well-formed programs in random layouts with comments and conditional directives (parent and end-of-file clauses). Stream tail = a generated complete file followed by further text after its final `end.`. Oracle on DelphiLogicalLineParser.parse(DelphiLexer.lex(x)): every line non-empty, token indices in range and strictly increasing, every token in >= 1 line and in exactly 1 when the input has no conditional-directive token; for well-formed programs additionally: a child's parent line precedes it and contains the parent token, exactly one end-of-file line and it holds only the end-of-file token. Non-trivial = >= 15 tokens and (>= 1 child line or >= 1 conditional directive); distinct by input hash."
            .into()
    }
    fn assumptions(&self) -> Vec<String> {
        vec!["'well-formed' for the parent/end-of-file clauses means derived from the harness grammar (DESIGN Appendix A)".into()]
    }
    fn streams(&self, tier: Tier) -> Vec<Stream> {
        let q = tier == Tier::Quick;
        let mut v = vec![
            Stream::exhaustive("sigma3", soup::space_size(3)),
            Stream::exhaustive("sigma2sep", soup::space_size(2) * 3),
            Stream::random("any", if q { 6000 } else { 80000 }, 400),
            Stream::random("any_chk", if q { 1500 } else { 15000 }, 400).chk(),
        ];
        v.extend(crate::props::wf::wf_streams(tier, 3));
        v.push(Stream::random("tail", if q { 3000 } else { 30000 }, 700));
        if !q {
            v.push(Stream::exhaustive("sigma4", soup::space_size(4)));
        }
        v
    }
    fn generate(&self, stream: &str, t: &mut Tape) -> Option<Case> {
        let stream = stream.trim_end_matches("_chk");
        match stream {
            "any" => {
                let (input, g) = common::gen_any_input(t, 100);
                Some(Case::text(g, input, Cfg::default()))
            }
            "tail" => {
                // a complete file followed by further text after its final `end.` (the compiler
                // ignores it; every token must still belong to a logical line)
                let mut c = crate::props::wf::wf_generate("prog", t, false)?;
                if !c.input.trim_end().to_ascii_lowercase().ends_with("end.") {
                    // a fragment: close it like a program body (any input is in scope here)
                    c.input.push_str("\nend.");
                }
                let tail = *t.pick(&[
                    "\nFoo;\nBar := 1;\n",
                    " trailing words here",
                    "\n// note\nprocedure P; begin end;\n",
                    "\n{ comment }\nX := Y;",
                    "\nunit Other;\ninterface\nimplementation\nend.\n",
                    " . end. end",
                ]);
                c.input.push_str(tail);
                c.ann = None;
                c.gen = "tail".into();
                Some(c)
            }
            s => crate::props::wf::wf_generate(s, t, false),
        }
    }
    fn enumerate(&self, stream: &str, index: u64) -> Option<Case> {
        match stream {
            "sigma3" => Some(Case::text(
                "sigma3",
                soup::render_indices(&soup::decode(index, 3), " "),
                Cfg::default(),
            )),
            "sigma4" => Some(Case::text(
                "sigma4",
                soup::render_indices(&soup::decode(index, 4), " "),
                Cfg::default(),
            )),
            "sigma2sep" => Some(Case::text(
                "sigma2sep",
                soup::render_indices(&soup::decode(index / 3, 2), ["", " ", "\n"][(index % 3) as usize]),
                Cfg::default(),
            )),
            _ => None,
        }
    }
    fn text_shrink(&self) -> bool {
        true
    }
    fn check(&self, case: &Case, ctx: &mut Ctx) -> Outcome {
        let wf = case.ann.is_some();
        match check_lines(&case.input, wf) {
            Err(f) => Outcome::Fail(f),
            Ok(p) => {
                ctx.class_if(p.child_lines > 0, "has-child-line");
                ctx.class_if(p.conditionals > 0, "has-conditional");
                ctx.class_if(wf, "well-formed");
                ctx.class_if(p.lines > 10, "lines>10");
                Outcome::Pass {
                    nontrivial: p.tokens >= 15 && (p.child_lines > 0 || p.conditionals > 0),
                }
            }
        }
    }
}
