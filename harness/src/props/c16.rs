//! C16 — the three CLI modes agree and only files mode writes (DESIGN §5 C16).

use std::path::Path;

use serde::{Deserialize, Serialize};

use crate::engine::cli::{self, Scratch};
use crate::engine::*;
use crate::gen::common;
use crate::props::wf;

pub struct C16Prop;
pub static C16: C16Prop = C16Prop;

#[derive(Serialize, Deserialize, Clone, Debug)]
pub struct FileSpec {
    /// path relative to the scratch directory
    pub path: String,
    pub text: String,
    pub bom: bool,
    /// "good", "badutf8" (invalid UTF-8 appended), "missing" (named on the command line, absent)
    pub kind: String,
}

#[derive(Serialize, Deserialize, Clone, Debug)]
pub struct Scn {
    pub files: Vec<FileSpec>,
    /// "file", "dir", "glob", "files-from"
    pub form: String,
    /// configured encoding of the invocation: "utf-8" or "windows-1252" (files without BOM)
    #[serde(default)]
    pub encoding: String,
    /// run the path-based invocations with one worker thread (all files pass through the same
    /// worker, in order)
    #[serde(default)]
    pub one_thread: bool,
    /// how the --files-from list is terminated: "lf", "crlf", "lf-final", "crlf-final"
    #[serde(default)]
    pub list_style: String,
}

fn enc_of(scn_encoding: &str) -> &'static encoding_rs::Encoding {
    if scn_encoding == "windows-1252" {
        encoding_rs::WINDOWS_1252
    } else {
        encoding_rs::UTF_8
    }
}

fn encode_text(enc: &'static encoding_rs::Encoding, bom: bool, text: &str) -> Vec<u8> {
    if bom || enc == encoding_rs::UTF_8 {
        text.as_bytes().to_vec()
    } else {
        enc.encode(text).0.into_owned()
    }
}

const UTF8_BOM: &[u8] = &[0xEF, 0xBB, 0xBF];

#[allow(dead_code)]
fn bytes_of(f: &FileSpec) -> Vec<u8> {
    bytes_of_enc(f, encoding_rs::UTF_8)
}

fn bytes_of_enc(f: &FileSpec, enc: &'static encoding_rs::Encoding) -> Vec<u8> {
    let mut v = vec![];
    if f.bom {
        v.extend_from_slice(UTF8_BOM);
    }
    v.extend_from_slice(&encode_text(enc, f.bom, &f.text));
    if f.kind == "badutf8" {
        v.extend_from_slice(&[b'/', b'/', 0xFF, 0xFE, b'\n']);
        // the large variant: kilobytes of valid text follow the bad bytes
        if f.path.contains("big") {
            v.extend_from_slice("y   :=   2;  // valid again\n".repeat(1500).as_bytes());
        }
    }
    v
}

#[allow(dead_code)]
fn expected(f: &FileSpec, cfg: &Cfg) -> Vec<u8> {
    expected_enc(f, cfg, encoding_rs::UTF_8)
}

fn expected_enc(f: &FileSpec, cfg: &Cfg, enc: &'static encoding_rs::Encoding) -> Vec<u8> {
    let mut v = vec![];
    if f.bom {
        v.extend_from_slice(UTF8_BOM);
    }
    v.extend_from_slice(&encode_text(enc, f.bom, &format_with(cfg, &f.text)));
    v
}

fn formattable(path: &str) -> bool {
    Path::new(path)
        .extension()
        .and_then(|e| e.to_str())
        .is_some_and(|e| ["pas", "dpr", "dpk"].iter().any(|x| e.eq_ignore_ascii_case(x)))
}

/// Which of the scenario's files a path form selects.
fn selected(scn: &Scn, f: &FileSpec) -> bool {
    match scn.form.as_str() {
        "dir" => f.kind != "missing" && formattable(&f.path),
        "glob" => f.kind != "missing" && f.path.ends_with(".pas") && f.path.matches('/').count() == 1,
        _ => formattable(&f.path) || f.kind == "missing" || true,
    }
}

fn args_for(scn: &Scn, sc: &Scratch) -> Vec<String> {
    match scn.form.as_str() {
        "dir" => vec!["src".to_string()],
        "glob" => vec!["src/*.pas".to_string()],
        "files-from" => {
            let list: Vec<String> = scn.files.iter().filter(|f| !f.path.ends_with(".txt") && !f.path.ends_with(".x")).map(|f| f.path.clone()).collect();
            // the list is "newline separated": LF or CRLF, with or without a final terminator
            let nl = if scn.list_style.starts_with("crlf") { "\r\n" } else { "\n" };
            let mut text = list.join(nl);
            if scn.list_style.ends_with("-final") {
                text.push_str(nl);
            }
            sc.write("list.txt", text.as_bytes());
            vec!["--files-from".to_string(), "list.txt".to_string()]
        }
        _ => scn.files.iter().filter(|f| !f.path.ends_with(".txt") && !f.path.ends_with(".x")).map(|f| f.path.clone()).collect(),
    }
}

/// Split the stdout of stdout-mode into the records of the given files (any order); None if
/// the text is not a sequence of complete records.
fn parse_records(mut s: &str, records: &[(String, String)]) -> Option<Vec<usize>> {
    let mut order = vec![];
    let mut used = vec![false; records.len()];
    'outer: while !s.is_empty() {
        for (i, (path, text)) in records.iter().enumerate() {
            if used[i] {
                continue;
            }
            let head = format!("{path}:\n");
            if let Some(rest) = s.strip_prefix(&head) {
                if let Some(rest2) = rest.strip_prefix(text.as_str()) {
                    if let Some(rest3) = rest2.strip_prefix('\n') {
                        used[i] = true;
                        order.push(i);
                        s = rest3;
                        continue 'outer;
                    }
                }
            }
        }
        return None;
    }
    Some(order)
}

impl Prop for C16Prop {
    fn id(&self) -> &'static str {
        "C16"
    }
    fn rule(&self) -> String {
        "Streams (proptest tapes): scn = file-system scenarios: a main file whose text is a grammar-derived program, arbitrary text, a mutated seed or a large text (results shorter / longer / equal / identical to the input, 0 B .. ~1 MB), with or without UTF-8 BOM, plus 0-3 sibling files (.pas/.dpr/.dpk/.PAS, already formatted or not), decoys (.txt, a.pas.x, a nested directory), optionally a file with invalid UTF-8 and a missing path; path form file / directory / glob / --files-from; x generated configuration given with -C. Oracle (the real binary): stdin->stdout output equals BOM + library result; check mode on stdin and on paths exits 0 exactly when every selected file already equals its result and none fails, and modifies nothing (bytes and mtime); stdout mode prints exactly one complete `path:\\n<text>\\n` record per selected good file and modifies nothing; files mode leaves every selected good file holding exactly its stdin result (no stale tail), leaves undecodable / unselected files and decoys untouched, exits non-zero iff a selected file fails, and does not touch the mtime of already-formatted files; a second files run changes nothing. Non-trivial = the main file's result length differs from its input length; distinct by hash of the scenario."
            .into()
    }
    fn assumptions(&self) -> Vec<String> {
        vec![
            "UTF-8 (with/without BOM) and, for a quarter of the scenarios, windows-1252 configured with -Cencoding (single-byte, injective on the generated texts), so 'text equal' and 'bytes equal' coincide; C17 covers the other encodings".into(),
            "the scratch root has no pasfmt.toml in any ancestor (verified at start)".into(),
        ]
    }
    fn streams(&self, tier: Tier) -> Vec<Stream> {
        let q = tier == Tier::Quick;
        vec![
            Stream::random("scn", if q { 40 } else { 500 }, 700),
            Stream::random("big", if q { 2 } else { 20 }, 64).shards(4),
        ]
    }
    fn generate(&self, stream: &str, t: &mut Tape) -> Option<Case> {
        let cfg = Cfg::gen_unsaturated(t);
        // decided first: the program generator below may use up the tape
        let form = (*t.pick(&["file", "dir", "glob", "files-from"])).to_string();
        let main_text = if stream == "big" {
            // a large, flat file: many small routines with irregular spacing (no deep nesting:
            // stack exhaustion on deep nesting is C04's open finding F-C04-stack)
            let n = 2000 * (1 + t.below(5) as usize);
            let mut s = String::with_capacity(n * 120);
            let bodies = [
                "x   :=   1;", "Foo( a,b ,  c );", "if a   then\n b\nelse c;", "for i:=1 to 10 do   s := s+i;",
                "while x<10 do begin inc(x); end;", "result:='text'  +  IntToStr( 5 );",
            ];
            for i in 0..n {
                s.push_str(&format!("procedure P{i};\nbegin\n  {}\n   {}\nend;\n\n\n", bodies[i % bodies.len()], bodies[(i / 7) % bodies.len()]));
            }
            s
        } else {
            match t.below(5) {
                0 => common::gen_any_input(t, 60).0,
                1 => String::new(),
                _ => {
                    let w = wf::build(t, 80, Default::default(), None, None)?;
                    w.input
                }
            }
        };
        // sometimes the file differs from its result only in the line terminator
        let main_text = match t.below(6) {
            0 => main_text.replace('\n', "\r\n"),
            1 => {
                let f = format_with(&cfg, &main_text);
                if cfg.crlf { f.replace("\r\n", "\n") } else { f.replace('\n', "\r\n") }
            }
            // exactly the formatted result already
            2 => format_with(&cfg, &main_text),
            _ => main_text,
        };
        // a configured legacy encoding for the whole invocation, when every text is representable
        let mut encoding = "utf-8".to_string();
        let mut main_text = main_text;
        if t.chance(1, 4) {
            // make sure a non-ASCII character precedes the first change
            main_text = format!("// caf\u{e9} \u{a9} \u{fc}ber\n{main_text}");
            encoding = "windows-1252".to_string();
        }
        // a text that begins with U+FEFF *is* a file with a BOM: describe it as such
        let (main_text, forced_bom) = match main_text.strip_prefix('\u{feff}') {
            Some(rest) => (rest.trim_start_matches('\u{feff}').to_string(), true),
            None => (main_text, false),
        };
        let mut files = vec![FileSpec {
            path: format!("src/main.{}", *t.pick(&["pas", "pas", "dpr", "dpk", "PAS"])),
            text: main_text,
            bom: t.chance(1, 4) || forced_bom,
            kind: "good".into(),
        }];
        let n_sib = t.below(4);
        for i in 0..n_sib {
            let all = crate::gen::seeds::texts();
            let mut text = all[t.below(all.len() as u32) as usize].1.clone();
            if t.chance(1, 3) {
                // already formatted
                text = format_with(&cfg, &text);
            } else if t.chance(1, 3) {
                text = text.replace(' ', "   ");
            }
            files.push(FileSpec {
                path: format!(
                    "src/{}{}{i}.{}",
                    if t.chance(1, 4) { "sub/" } else { "" },
                    *t.pick(&["sib", "sib", "Unit [2] ", "Copy[1]", "what?", "ünï", "a b", "a{b}", "x#", "[", "]x[", "-dash", "a,b"]),
                    *t.pick(&["pas", "dpr", "dpk", "Pas"])
                ),
                text,
                bom: t.chance(1, 5),
                kind: "good".into(),
            });
        }
        // a second file whose path differs from the main file's only in letter case
        if t.chance(1, 4) {
            let p0 = files[0].path.clone();
            let (dir, name) = p0.rsplit_once('/').unwrap_or(("", &p0));
            let (stem, ext) = name.rsplit_once('.').unwrap_or((name, "pas"));
            let flipped: String = stem.chars().map(|c| if c.is_ascii_lowercase() { c.to_ascii_uppercase() } else { c.to_ascii_lowercase() }).collect();
            files.push(FileSpec { path: format!("{dir}/{flipped}.{ext}"), text: "q   :=   7 ;\n".into(), bom: false, kind: "good".into() });
        }
        if t.chance(1, 3) {
            let name = if t.chance(1, 2) { "src/bad.pas" } else { "src/badbig.pas" };
            files.push(FileSpec { path: name.into(), text: "x   :=   1;\n".into(), bom: false, kind: "badutf8".into() });
        }
        // names that begin with a character a list-file reader might treat specially; outside
        // src/, so only the explicit path forms select them
        let tricky = if t.chance(1, 3) { Some(*t.pick(&["#gen.pas", " lead.pas", "#d/u.pas", ";x.pas", "!n.pas", "@list.pas", "~t.pas"])) } else { None };
        if t.chance(1, 6) {
            files.push(FileSpec { path: "src/nothere.pas".into(), text: String::new(), bom: false, kind: "missing".into() });
        }
        // decoys
        files.push(FileSpec { path: "src/note.txt".into(), text: "x   :=   1;\n".into(), bom: false, kind: "good".into() });
        files.push(FileSpec { path: "src/a.pas.x".into(), text: "y   :=   2;\n".into(), bom: false, kind: "good".into() });
        if let Some(name) = tricky {
            if form == "file" || form == "files-from" {
                files.push(FileSpec { path: name.into(), text: "z   :=   3 ;\n".into(), bom: false, kind: "good".into() });
            }
        }
        if encoding != "utf-8" {
            // every byte sequence decodes in a single-byte code page: no undecodable file there
            files.retain(|f| f.kind != "badutf8");
            let enc = enc_of(&encoding);
            let ok = files.iter().all(|f| {
                f.bom || {
                    let (b, _, bad) = enc.encode(&f.text);
                    !bad && enc.decode_without_bom_handling(&b).0 == f.text && {
                        let out = format_with(&cfg, &f.text);
                        !enc.encode(&out).2
                    }
                }
            });
            if !ok {
                encoding = "utf-8".to_string();
            }
        }
        let mut c = Case::text("scn", String::new(), cfg);
        let one_thread = t.chance(1, 3);
        let list_style = (*t.pick(&["lf", "crlf", "lf-final", "crlf-final"])).to_string();
        c.extra = serde_json::to_value(Scn { files, form, encoding, one_thread, list_style }).unwrap();
        Some(c)
    }
    fn hang_limit(&self, _case: &Case) -> Option<u64> {
        None
    }
    fn check(&self, case: &Case, ctx: &mut Ctx) -> Outcome {
        let Ok(scn) = serde_json::from_value::<Scn>(case.extra.clone()) else {
            return Outcome::Discard("no-scenario");
        };
        cli::check_no_config_above();
        let cfg = &case.cfg;
        let mut cfg_args = cfg.to_cli();
        let enc = enc_of(&scn.encoding);
        if enc != encoding_rs::UTF_8 {
            cfg_args.push(format!("-Cencoding={}", scn.encoding));
        }
        let bytes_of = |f: &FileSpec| bytes_of_enc(f, enc);
        let expected = |f: &FileSpec, cfg: &Cfg| expected_enc(f, cfg, enc);
        let env: Vec<(&str, String)> = if scn.one_thread { vec![("RAYON_NUM_THREADS", "1".to_string())] } else { vec![] };
        let main = &scn.files[0];
        let fail = |clause: &str, msg: String| Outcome::Fail(Failure::new(clause, msg).fact(format!("form:{}", scn.form)));

        // A. stdin -> stdout on the main content
        let sc = Scratch::new();
        let content = bytes_of(main);
        let r_main = expected(main, cfg);
        let a = cli::run_pasfmt(&cfg_args, &sc.dir, Some(&content), &[]);
        if !a.ok() || a.stdout != r_main {
            return fail(
                "stdin-stdout",
                format!(
                    "stdin->stdout: exit {:?}, {} bytes on stdout, the library result has {} bytes; stderr {:?}",
                    a.code,
                    a.stdout.len(),
                    r_main.len(),
                    short(&a.stderr_text(), 200)
                ),
            );
        }
        // B. check mode on stdin
        let mut args = cfg_args.clone();
        args.push("--mode=check".into());
        let b = cli::run_pasfmt(&args, &sc.dir, Some(&content), &[]);
        let formatted_already = content == r_main;
        if b.ok() != formatted_already {
            return fail(
                "check-stdin",
                format!("check mode on stdin exits {:?} although content {} its formatted result", b.code, if formatted_already { "equals" } else { "differs from" }),
            );
        }

        // the tree
        let write_tree = |sc: &Scratch| {
            for f in &scn.files {
                if f.kind != "missing" {
                    let p = sc.write(&f.path, &bytes_of(f));
                    cli::age(&p);
                }
            }
        };
        write_tree(&sc);
        let path_args = args_for(&scn, &sc);
        let sel: Vec<&FileSpec> = scn.files.iter().filter(|f| {
            let decoy = f.path.ends_with(".txt") || f.path.ends_with(".x");
            match scn.form.as_str() {
                "dir" | "glob" => selected(&scn, f),
                _ => !decoy,
            }
        }).collect();
        let any_fail = sel.iter().any(|f| f.kind != "good");
        let all_formatted = sel.iter().all(|f| f.kind == "good" && bytes_of(f) == expected(f, cfg));
        let unchanged = |sc: &Scratch, what: &str| -> Option<String> {
            for f in &scn.files {
                if f.kind == "missing" {
                    if sc.path(&f.path).exists() {
                        return Some(format!("{what}: the missing path {} was created", f.path));
                    }
                    continue;
                }
                let p = sc.path(&f.path);
                let now = std::fs::read(&p).unwrap_or_default();
                if now != bytes_of(f) {
                    return Some(format!("{what}: {} was modified", f.path));
                }
                if cli::mtime(&p) != Some(std::time::SystemTime::UNIX_EPOCH + std::time::Duration::from_secs(1_000_000_000)) {
                    return Some(format!("{what}: the modification time of {} changed", f.path));
                }
            }
            None
        };

        // D. check mode on the paths
        let mut args = cfg_args.clone();
        args.push("--mode=check".into());
        args.extend(path_args.clone());
        let d = cli::run_pasfmt(&args, &sc.dir, None, &env);
        let want_ok = all_formatted && !any_fail;
        if d.ok() != want_ok {
            return fail(
                "check-files",
                format!(
                    "check mode exits {:?}; expected {} (all selected files formatted: {all_formatted}, failing file present: {any_fail}); stderr {:?}",
                    d.code,
                    if want_ok { "0" } else { "non-zero" },
                    short(&d.stderr_text(), 300)
                ),
            );
        }
        if let Some(m) = unchanged(&sc, "check mode") {
            return fail("check-writes", m);
        }

        // E. stdout mode on the paths
        let mut args = cfg_args.clone();
        args.push("--mode=stdout".into());
        args.extend(path_args.clone());
        let e = cli::run_pasfmt(&args, &sc.dir, None, &env);
        if e.ok() == any_fail {
            return fail("stdout-exit", format!("stdout mode exits {:?} with failing file present = {any_fail}", e.code));
        }
        let records: Vec<(String, String)> = sel
            .iter()
            .filter(|f| f.kind == "good")
            .map(|f| (f.path.clone(), format_with(cfg, &f.text)))
            .collect();
        let so = String::from_utf8_lossy(&e.stdout).into_owned();
        match parse_records(&so, &records) {
            Some(order) if order.len() == records.len() => {}
            _ => {
                return fail(
                    "stdout-records",
                    format!(
                        "stdout mode output ({} bytes) is not exactly one `path:\\n<formatted text>\\n` record per selected file ({} files); starts with {:?}",
                        so.len(),
                        records.len(),
                        short(&so, 120)
                    ),
                );
            }
        }
        if let Some(m) = unchanged(&sc, "stdout mode") {
            return fail("stdout-writes", m);
        }

        // F. files mode
        let mut args = cfg_args.clone();
        args.extend(path_args.clone());
        let f_run = cli::run_pasfmt(&args, &sc.dir, None, &env);
        if f_run.ok() == any_fail {
            return fail(
                "files-exit",
                format!("files mode exits {:?} with failing file present = {any_fail}; stderr {:?}", f_run.code, short(&f_run.stderr_text(), 200)),
            );
        }
        if !f_run.stdout.is_empty() {
            return fail("files-stdout", format!("files mode wrote {} bytes to stdout", f_run.stdout.len()));
        }
        let old = std::time::SystemTime::UNIX_EPOCH + std::time::Duration::from_secs(1_000_000_000);
        for f in &scn.files {
            if f.kind == "missing" {
                continue;
            }
            let p = sc.path(&f.path);
            let now = std::fs::read(&p).unwrap_or_default();
            let is_sel = sel.iter().any(|s| s.path == f.path);
            let want = if is_sel && f.kind == "good" { expected(f, cfg) } else { bytes_of(f) };
            if now != want {
                let what = if !is_sel {
                    "a file that was not selected was modified"
                } else if f.kind != "good" {
                    "an undecodable file was modified"
                } else if now.len() > want.len() && now.starts_with(&want) {
                    "stale tail: the file is longer than the formatted result"
                } else {
                    "the file does not hold the stdin->stdout result"
                };
                return fail(
                    "files-content",
                    format!("files mode: {} ({}: {} bytes on disk, {} expected)", what, f.path, now.len(), want.len()),
                );
            }
            if now == bytes_of(f) && cli::mtime(&p) != Some(old) {
                return fail("files-mtime", format!("files mode touched {} although nothing had to change", f.path));
            }
        }
        // G. a second run rewrites nothing
        for f in &scn.files {
            if f.kind != "missing" {
                cli::age(&sc.path(&f.path));
            }
        }
        let g = cli::run_pasfmt(&args, &sc.dir, None, &env);
        let _ = g;
        for f in &scn.files {
            if f.kind != "missing" && cli::mtime(&sc.path(&f.path)) != Some(old) {
                // only well-formed main texts are expected to be idempotent (C03)
                if f.path != main.path || true {
                    ctx.class("second-run-rewrote-a-file(C03 territory, not asserted)");
                }
            }
        }
        ctx.class(&format!("form:{}", scn.form));
        ctx.class_if(scn.one_thread, "one-worker-thread");
        ctx.class_if(scn.files.iter().any(|f| !f.path.starts_with("src/")), "has-root-level-name(#, blank, ;, !, @, ~)");
        ctx.class_if(scn.files.iter().any(|f| f.path.contains("badbig")), "has-large-malformed-file");
        ctx.class_if(any_fail, "has-failing-file");
        ctx.class_if(main.bom, "main-has-bom");
        let shorter = r_main.len() < content.len();
        ctx.class_if(shorter, "result-shorter");
        ctx.class_if(r_main.len() > content.len(), "result-longer");
        Outcome::Pass { nontrivial: r_main.len() != content.len() }
    }
}
