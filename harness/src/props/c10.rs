//! C10 — indentation settings only re-render indentation (DESIGN §5 C10).

use crate::engine::*;
use crate::model::refscan::{self, Kind};
use crate::props::wf;

pub struct C10Prop;
pub static C10: C10Prop = C10Prop;

/// Offsets of line starts that lie inside a multi-line block comment (verbatim lines).
fn verbatim_line_starts(s: &str) -> Vec<usize> {
    let mut v = vec![];
    for t in refscan::scan(s) {
        if matches!(t.kind, Kind::CommentBlock | Kind::TextUnterminated) {
            let txt = t.text(s);
            for (i, c) in txt.char_indices() {
                if c == '\n' {
                    v.push(t.start + i + 1);
                }
            }
        }
    }
    v
}

#[allow(dead_code)]
fn detab(s: &str, tab_width: usize) -> String {
    let skip = verbatim_line_starts(s);
    let mut out = String::with_capacity(s.len() * 2);
    let mut pos = 0usize;
    for line in s.split_inclusive('\n') {
        if skip.contains(&pos) {
            out.push_str(line);
        } else {
            let tabs = line.bytes().take_while(|c| *c == b'\t').count();
            for _ in 0..tabs * tab_width {
                out.push(' ');
            }
            out.push_str(&line[tabs..]);
        }
        pos += line.len();
    }
    out
}

fn leading_tabs(line: &str) -> usize {
    line.bytes().take_while(|c| *c == b'\t').count()
}

impl Prop for C10Prop {
    fn id(&self) -> &'static str {
        "C10"
    }
    fn rule(&self) -> String {
        "Streams (proptest tapes): prog / progbig / mlprog = grammar-derived programs (comments, multi-line strings in mlprog; no leading tabs inside verbatim tokens), wrap_column = 2^32-1, tab_width and continuation_indents drawn from small values mixed with the whole range 0..255 (products above 255 included). Oracle: with tabs and continuation_indents 0 / 1 / k the output has the same lines; per line (lines inside multi-line comments excepted) levels = tabs(0), continuations = tabs(1) - tabs(0), tabs(k) = levels + k x continuations, the use_tabs=false result has exactly levels x tab_width + continuations x min(255, tab_width x k) spaces (the saturation at the u8 boundary named in the statement), and the text after the indentation is identical in all four renderings; for unsaturated products this is exactly 'replace every leading tab by tab_width spaces'. Non-trivial = >= 1 continuation line and >= 2 indentation levels; distinct by hash of (input, configuration)."
            .into()
    }
    fn assumptions(&self) -> Vec<String> {
        vec!["the statement's 'saturation at the u8 boundary' is read as: the continuation width in spaces is min(255, tab_width x continuation_indents)".into()]
    }
    fn streams(&self, tier: Tier) -> Vec<Stream> {
        let q = tier == Tier::Quick;
        let mut v = wf::wf_streams(tier, 2);
        v.push(Stream::random("mlprog", if q { 500 } else { 8000 }, 700));
        v
    }
    fn generate(&self, stream: &str, t: &mut Tape) -> Option<Case> {
        let mut cfg = Cfg::gen(t);
        cfg.wrap_column = u32::MAX;
        cfg.tab_width = match t.below(6) {
            0 => 2,
            1 => 4,
            2 => 1,
            3 => 0,
            4 => t.range(0, 12) as u8,
            _ => t.range(0, 255) as u8,
        };
        cfg.continuation_indents = match t.below(6) {
            0 => 2,
            1 => 1,
            2 => 0,
            3 => 3,
            4 => t.range(0, 8) as u8,
            _ => t.range(0, 255) as u8,
        };
        let opts = crate::gen::prog::Opts { mlstr: stream == "mlprog", ..Default::default() };
        let fuel = if stream == "mlprog" { 60 } else { wf::fuel_for(stream) };
        let w = wf::build(t, fuel, opts, None, None)?;
        Some(wf::case_of(&w, cfg, stream))
    }
    fn check(&self, case: &Case, ctx: &mut Ctx) -> Outcome {
        let base = &case.cfg;
        let tw = base.tab_width as usize;
        let k = base.continuation_indents as usize;
        let tabs = Cfg { use_tabs: true, ..base.clone() };
        let spaces = Cfg { use_tabs: false, ..base.clone() };
        let ot = format_with(&tabs, &case.input);
        let os = format_with(&spaces, &case.input);
        let o0 = format_with(&Cfg { continuation_indents: 0, ..tabs.clone() }, &case.input);
        let o1 = format_with(&Cfg { continuation_indents: 1, ..tabs.clone() }, &case.input);
        let skip = verbatim_line_starts(&ot);
        let l0: Vec<&str> = o0.split('\n').collect();
        let l1: Vec<&str> = o1.split('\n').collect();
        let lk: Vec<&str> = ot.split('\n').collect();
        let ls: Vec<&str> = os.split('\n').collect();
        if l0.len() != lk.len() || l1.len() != lk.len() || ls.len() != lk.len() {
            return Outcome::Fail(Failure::new(
                "line-structure",
                format!(
                    "line structure depends on the indentation settings at unconstrained width: {} / {} / {} lines with tabs and continuation_indents 0 / 1 / {k}, {} with spaces",
                    l0.len(),
                    l1.len(),
                    lk.len(),
                    ls.len()
                ),
            ));
        }
        // the continuation width in spaces saturates at the u8 boundary (part of the statement)
        let cont_spaces = (tw * k).min(255);
        let saturated = tw * k > 255;
        let mut pos = 0usize;
        let mut has_cont = false;
        let mut max_level = 0;
        for i in 0..lk.len() {
            let in_verbatim = skip.contains(&pos);
            pos += lk[i].len() + 1;
            if in_verbatim {
                if ls[i] != lk[i] {
                    return Outcome::Fail(Failure::new(
                        "verbatim-line",
                        format!("line {} inside a multi-line comment differs between tabs and spaces", i + 1),
                    ));
                }
                continue;
            }
            let (n0, n1, nk) = (leading_tabs(l0[i]), leading_tabs(l1[i]), leading_tabs(lk[i]));
            if n1 < n0 {
                return Outcome::Fail(Failure::new(
                    "linearity",
                    format!("line {}: fewer tabs with continuation_indents=1 ({n1}) than with 0 ({n0})", i + 1),
                ));
            }
            let levels = n0;
            let conts = n1 - n0;
            let want_tabs = levels + conts * k;
            let text = &lk[i][nk..];
            if nk != want_tabs || &l0[i][n0..] != text || &l1[i][n1..] != text {
                return Outcome::Fail(
                    Failure::new(
                        "linearity",
                        format!(
                            "line {}: {n0} / {n1} / {nk} leading tabs for continuation_indents 0 / 1 / {k} (expected {want_tabs}) or the text after the indentation differs: {:?}",
                            i + 1,
                            short(lk[i], 80)
                        ),
                    )
                    .fact(if saturated { "saturated" } else { "unsaturated" }),
                );
            }
            let want_spaces = levels * tw + conts * cont_spaces;
            // the text after the indentation may itself start with spaces (interior lines of
            // multi-line strings), so the whole line is compared
            let ns = ls[i].bytes().take_while(|c| *c == b' ').count();
            let expected_line = format!("{}{}", " ".repeat(want_spaces), text);
            if ls[i] != expected_line {
                return Outcome::Fail(
                    Failure::new(
                        "units",
                        format!(
                            "line {}: {levels} level(s) + {conts} continuation(s) should be {want_spaces} spaces (tab_width {tw}, continuation_indents {k}{}), the use_tabs=false result has {ns}: {:?}",
                            i + 1,
                            if saturated { ", saturated at 255" } else { "" },
                            short(ls[i], 80)
                        ),
                    )
                    .fact(if saturated { "saturated" } else { "unsaturated" }),
                );
            }
            if conts > 0 {
                has_cont = true;
            }
            max_level = max_level.max(levels);
        }
        wf::classes(case, ctx);
        ctx.class_if(has_cont, "has-continuation-line");
        ctx.class_if(saturated, "saturating-product");
        Outcome::Pass { nontrivial: has_cont && max_level >= 2 }
    }
}
