//! C11 — wrap_column is a limit, not a style switch (DESIGN §5 C11).

use crate::engine::*;
use crate::props::wf;

pub struct C11Prop;
pub static C11: C11Prop = C11Prop;

const WIDTHS: &[u32] = &[10, 15, 20, 30, 40, 60, 80, 100, 120, 160, 200];

fn max_line(s: &str) -> usize {
    s.split('\n').map(|l| l.trim_end_matches('\r').len()).max().unwrap_or(0)
}

impl Prop for C11Prop {
    fn id(&self) -> &'static str {
        "C11"
    }
    fn rule(&self) -> String {
        "Streams (proptest tapes): prog / progbig = grammar-derived ASCII-only programs with comments, use_tabs=false, other settings generated; width pairs W1 < W2 from {10,15,20,30,40,60,80,100,120,160,200} and random 8..250; stream tight: W1 within two columns of the length of a line of the wide result and W2 = W1 + {1,2,3,10,40}, or W2 up to 20 columns below that length and W1 a further 1..30 below (boundary-directed). Streams simple / simple_tight: the strictly asserted domain (simple expressions, declarations incl. variant records with several labels, trailing / own-line / mid-statement `//` comments, continuation <= 8 columns). Stream simple_cli: the strict domain through the binary (stdin -> stdout, configuration given with -C; each output must also equal the library's for the same settings), narrow limits 8..30 and indentation units up to 8 emphasised. Stream lits_tight: statements containing valid multi-line string literals followed by further tokens (`'''.Format(A, B)`, call argument, concatenation, first token of the statement, if-condition) 0-3 blocks deep, soft or hard tabs, the same boundary-directed widths. Oracles: (a) if every line of format_W2(x) has <= W1 bytes then format_W1(x) == format_W2(x); (b) lines(format_W2(x)) <= lines(format_W1(x)); (c) if every line of format_W1(x) has <= W1 bytes then every line of format_W2(x) has <= W2. Width = bytes = chars = columns on this domain. Runs where the wrapper logged 'Iteration limit reached' are classified separately. Non-trivial = the two outputs differ, or premise (a) holds with a wrapped line; distinct by hash of (input, configuration, W2)."
            .into()
    }
    fn assumptions(&self) -> Vec<String> {
        vec!["ASCII-only lexemes and soft tabs, so that the implementation's width measure and the user's coincide".into()]
    }
    fn streams(&self, tier: Tier) -> Vec<Stream> {
        let q = tier == Tier::Quick;
        let mut v = wf::wf_streams(tier, 1);
        v.push(Stream::random("tight", if q { 800 } else { 10000 }, 700));
        // the strictly asserted domain: simple expressions, small indentation units
        v.push(Stream::random("simple", if q { 2500 } else { 30000 }, 700));
        v.push(Stream::random("simple_tight", if q { 2500 } else { 30000 }, 700));
        // declaration sections only (records with variant parts, classes, enums, ...)
        v.push(Stream::random("simple_decls_tight", if q { 1500 } else { 20000 }, 700));
        // the same three clauses on what the binary prints (configuration given with -C)
        v.push(Stream::random("simple_cli", if q { 150 } else { 1500 }, 700).shards(4));
        // statements with multi-line string literals (C12's shapes), hard tabs included
        v.push(Stream::random("lits_tight", if q { 1500 } else { 20000 }, 300));
        v
    }
    fn generate(&self, stream: &str, t: &mut Tape) -> Option<Case> {
        if stream == "lits_tight" {
            // valid ASCII literals (LF, space-indented) in a few statement shapes, 0-3 blocks deep
            let depth = t.below(4) as usize;
            let mut src = String::new();
            for d in 0..depth {
                src.push_str(&"  ".repeat(d));
                src.push_str("begin\n");
            }
            let n = 1 + t.below(3);
            for _ in 0..n {
                let lit = crate::gen::mlstr::gen_valid_literal(t, true);
                let ind = "  ".repeat(depth);
                let stmt = match t.below(6) {
                    0 => format!("{ind}S := {lit}.Format(Alpha, Beta);\n"),
                    1 => format!("{ind}Foo(Alpha, {lit}, Beta);\n"),
                    2 => format!("{ind}S := Prefix + {lit} + Suffix(1, 2);\n"),
                    3 => format!("{ind}{lit}.Foo(Aaa, Bbbbbb);\n"),
                    4 => format!("{ind}if S = {lit}.Trim then\n{ind}  Bar(1, 2, 3);\n"),
                    _ => format!("{ind}Result := Combine({lit}.Trim, Other.Value, 100);\n"),
                };
                src.push_str(&stmt);
            }
            // closers are not needed for the oracle; an unterminated block is still laid out
            for d in (0..depth).rev() {
                src.push_str(&"  ".repeat(d));
                src.push_str("end;\n");
            }
            let mut c = Case::text("lits_tight", src, Cfg::gen_unsaturated(t));
            c.cfg.tab_width = *t.pick(&[2, 4, 2, 3, 1]);
            c.cfg.continuation_indents = *t.pick(&[2, 1, 2]);
            c.cfg.use_tabs = t.chance(1, 3);
            c.cfg.wrap_column = 250;
            let wide = format_with(&c.cfg, &c.input);
            let lines: Vec<&str> = wide.lines().filter(|l| l.len() >= 10).collect();
            if lines.is_empty() {
                return None;
            }
            let l = lines[t.below(lines.len() as u32) as usize].len() as u32;
            let (w1, w2);
            if t.chance(1, 2) {
                w1 = (l + t.below(4)).saturating_sub(2).max(8);
                w2 = w1 + *t.pick(&[1, 1, 2, 3, 10, 40]);
            } else {
                let hi = l.saturating_sub(1 + t.below(l.min(40) / 2)).max(9);
                let lo = hi.saturating_sub(*t.pick(&[1, 2, 4, 8, 12, 16, 20, 30])).max(8);
                w2 = if lo >= hi { lo + 1 } else { hi };
                w1 = lo;
            }
            c.cfg.wrap_column = w1;
            c.cfg2 = Some(Cfg { wrap_column: w2, ..c.cfg.clone() });
            c.gen = "lits_tight".into();
            c.tags.push("simple-domain".into());
            c.tags.push("lits-domain".into());
            return Some(c);
        }
        let mut cfg = Cfg::gen_unsaturated(t);
        cfg.use_tabs = false;
        let mut w1 = if t.chance(1, 5) { t.range(8, 250) } else { *t.pick(WIDTHS) };
        let mut w2 = if t.chance(1, 5) { t.range(8, 250) } else { *t.pick(WIDTHS) };
        if w1 == w2 {
            w2 += 1 + t.below(40);
        }
        if w1 > w2 {
            std::mem::swap(&mut w1, &mut w2);
        }
        let simple = stream.starts_with("simple");
        let decl_heavy = stream.contains("decls");
        let opts = crate::gen::prog::Opts { ascii_only: true, simple, directives: !simple, decl_heavy, ..Default::default() };
        if stream == "simple_cli" {
            // narrow limits and wide indentation units: the region where a front end might be
            // tempted to second-guess the configured value
            cfg.tab_width = *t.pick(&[2, 4, 8, 3, 1]);
            cfg.continuation_indents = *t.pick(&[2, 1, 3]);
            cfg.use_tabs = t.chance(1, 4);
            if t.chance(1, 2) {
                w1 = t.range(8, 30);
                w2 = w1 + 1 + t.below(40);
            }
        } else if simple {
            cfg.tab_width = *t.pick(&[2, 4, 2, 3, 1]);
            cfg.continuation_indents = *t.pick(&[2, 1, 2]);
            // hard tabs too: the limit is then in characters (a tab counts as one), which is
            // the measure `max_line` uses as well
            cfg.use_tabs = t.chance(1, 5);
        }
        let policy = if simple {
            Some(if t.chance(1, 3) { crate::gen::layout::CommentPolicy::LineEdgesMid } else { crate::gen::layout::CommentPolicy::LineEdges })
        } else {
            None
        };
        let tight = stream.ends_with("tight");
        let w = wf::build(t, if tight { 60 } else { wf::fuel_for("prog").min(90) }, opts, policy, None)?;
        // the layouts use U+3000 as a blank now and then; this property needs one column per
        // character, so it becomes an ordinary space here
        let mut w = w;
        if !w.input.is_ascii() {
            w.input = w.input.replace('\u{3000}', " ");
        }
        if !w.input.is_ascii() {
            return None;
        }
        if tight {
            // boundary-directed widths: W1 within two columns of the length of a line of the
            // result at a generous width, W2 a little wider
            cfg.wrap_column = 250;
            let wide = format_with(&cfg, &w.input);
            let lines: Vec<&str> = wide.lines().filter(|l| l.len() >= 10).collect();
            if lines.is_empty() {
                return None;
            }
            let l = lines[t.below(lines.len() as u32) as usize].len() as u32;
            if t.chance(1, 2) {
                w1 = (l + t.below(4)).saturating_sub(2).max(8);
                w2 = w1 + *t.pick(&[1, 1, 2, 3, 10, 40]);
            } else {
                // the wider value a little below the line's length (the line has to be wrapped,
                // but much of it still fits), the narrower one well below that
                w2 = l.saturating_sub(1 + t.below(l.min(40) / 2)).max(9);
                w1 = w2.saturating_sub(*t.pick(&[1, 2, 4, 8, 12, 16, 20, 30])).max(8);
                if w1 >= w2 {
                    w2 = w1 + 1;
                }
            }
        }
        cfg.wrap_column = w1;
        let mut c = wf::case_of(&w, cfg.clone(), stream);
        if simple {
            c.tags.push("simple-domain".into());
        }
        c.cfg2 = Some(Cfg { wrap_column: w2, ..cfg });
        Some(c)
    }
    fn check(&self, case: &Case, ctx: &mut Ctx) -> Outcome {
        let Some(c2) = &case.cfg2 else { return Outcome::Discard("no-second-config") };
        let (w1, w2) = (case.cfg.wrap_column as usize, c2.wrap_column as usize);
        if w1 >= w2 {
            return Outcome::Discard("widths-not-ordered");
        }
        let via_cli = case.gen == "simple_cli";
        let (o1, o2, mut logf) = if via_cli {
            use crate::engine::cli;
            cli::check_no_config_above();
            let sc = cli::Scratch::new();
            let mut outs = vec![];
            for cfg in [&case.cfg, c2] {
                let r = cli::run_pasfmt(&cfg.to_cli(), &sc.dir, Some(case.input.as_bytes()), &[]);
                if !r.ok() {
                    return Outcome::Fail(Failure::new("cli-exit", format!("exit {:?}: {}", r.code, short(&r.stderr_text(), 200))).fact("via-cli"));
                }
                outs.push((String::from_utf8_lossy(&r.stdout).into_owned(), r.stderr_text()));
            }
            let mut lf = vec!["via-cli".to_string()];
            for (_, e) in &outs {
                if e.contains("Iteration limit reached") {
                    lf.push("log:iteration-limit".into());
                }
                if e.contains("No solution found") {
                    lf.push("log:no-solution".into());
                }
            }
            let o2 = outs.pop().unwrap().0;
            let o1 = outs.pop().unwrap().0;
            // the binary is the library plus I/O: the limit it applies is the configured one
            for (o, cfg) in [(&o1, &case.cfg), (&o2, c2)] {
                if *o != format_with(cfg, &case.input) {
                    return Outcome::Fail(
                        Failure::new(
                            "cli-vs-library",
                            format!("the binary's output for wrap_column={} differs from the library's for the same settings", cfg.wrap_column),
                        )
                        .fact("via-cli"),
                    );
                }
            }
            (o1, o2, lf)
        } else {
            let o1 = format_with(&case.cfg, &case.input);
            let mut logf = logcap::facts();
            let o2 = format_with(c2, &case.input);
            logf.extend(logcap::facts());
            (o1, o2, logf)
        };
        ctx.class_if(via_cli, "via-cli");
        logf.push(if max_line(&o1) > w1 { "narrow-result-overflows".into() } else { "narrow-result-fits".into() });
        logf.push(if case.tags.iter().any(|t| t == "simple-domain") { "simple-domain".into() } else { "general-domain".into() });
        logf.push(if max_line(&o2) > w2 { "wide-result-overflows".into() } else { "wide-result-fits".into() });
        let fits2in1 = max_line(&o2) <= w1;
        if fits2in1 && o1 != o2 {
            let same_count = o1.split('\n').count() == o2.split('\n').count();
            logf.push(if same_count { "same-line-count".into() } else { "different-line-count".into() });
            return Outcome::Fail(
                Failure::new(
                    "limit-not-style",
                    format!(
                        "the result for wrap_column={w2} fits within {w1} (longest line {}), yet wrap_column={w1} gives a different result",
                        max_line(&o2)
                    ),
                )
                .facts(&logf),
            );
        }
        let (n1, n2) = (o1.split('\n').count(), o2.split('\n').count());
        if n2 > n1 {
            let pct = (n2 - n1) * 100 / n1.max(1);
            // does the region where the two results part contain a `//` comment?
            let l1: Vec<&str> = o1.split('\n').collect();
            let l2: Vec<&str> = o2.split('\n').collect();
            let d = l1.iter().zip(&l2).position(|(a, b)| a != b).unwrap_or(0);
            let near_comment = l1.iter().skip(d).take(3).chain(l2.iter().skip(d).take(4)).any(|l| l.contains("//"));
            // ... or does it start in a routine heading?
            let heading = l1.iter().skip(d.saturating_sub(2)).take(3).any(|l| {
                let l = l.trim_start();
                let l = l.strip_prefix("class ").unwrap_or(l);
                ["function", "procedure", "constructor", "destructor", "operator"].iter().any(|k| l.starts_with(k))
            });
            return Outcome::Fail(
                Failure::new(
                    "more-lines-when-wider",
                    format!("wrap_column={w2} gives {n2} lines, wrap_column={w1} only {n1}"),
                )
                .fact(if near_comment { "diff-touches-line-comment" } else { "diff-without-line-comment" })
                .fact(if heading { "diff-in-routine-heading" } else { "diff-outside-routine-heading" })
                .fact(if pct <= 35 { "increase<=35%" } else { "increase>35%" })
                .facts(&logf),
            );
        }
        if max_line(&o1) <= w1 && max_line(&o2) > w2 {
            logf.push(if max_line(&o2) - w2 <= 2 { "overflow<=2".into() } else { "overflow>2".into() });
            return Outcome::Fail(
                Failure::new(
                    "fits-narrow-not-wide",
                    format!(
                        "every line fits at wrap_column={w1}, but at {w2} the longest line has {} bytes",
                        max_line(&o2)
                    ),
                )
                .facts(&logf),
            );
        }
        wf::classes(case, ctx);
        ctx.class_if(logf.iter().any(|f| f.starts_with("log:")), "iteration-limit-or-no-solution");
        let wrapped = n1 > case.input.matches(';').count() + 2;
        Outcome::Pass { nontrivial: o1 != o2 || (fits2in1 && wrapped) }
    }
}
