//! C13 — scanning is lossless and follows the Delphi lexical rules at any length (DESIGN §5 C13).

use pasfmt_core::defaults::lexer::verif_hooks as h1;
use pasfmt_core::prelude::*;

use crate::engine::*;
use crate::gen::common;
use crate::model::nonblank::is_blank;
use crate::model::refscan::{self, Kind};
use crate::props::c01::KEYWORDS;

pub struct C13Prop;
pub static C13: C13Prop = C13Prop;

const LENGTHS_EXTRA: &[usize] = &[255, 256, 257, 4097];
const PADS: &[usize] = &[0, 1, 2, 3, 7, 8, 15, 16, 17, 31, 32, 33, 63, 64];
const SUFFIX_LENS: &[usize] = &[0, 1, 30, 31, 32, 33, 64, 100];
/// delimiter classes following the word
const DELIMS: &[&str] = &[
    "", " ", "\n", "\r", ";", "(", ".", "'", "{", "/", "$", "#", "&", "^", "\0", "\u{7f}",
    "\u{3000}", "é", "中", "!",
];
const N_CLASSES: usize = 11;
const N_LEN: usize = 204;

fn length_of(i: usize) -> usize {
    if i < 200 {
        i + 1
    } else {
        LENGTHS_EXTRA[i - 200]
    }
}

pub fn grid_size() -> u64 {
    (N_CLASSES * N_LEN * PADS.len() * SUFFIX_LENS.len() * DELIMS.len()) as u64
}

/// Model of the identifier routine: three lines, straight from the rule.
fn model_ident_end(s: &str, offset: usize) -> usize {
    let mut e = offset;
    for c in s[offset..].chars() {
        if c.is_ascii_alphanumeric() || c == '_' || (!c.is_ascii() && c != '\u{3000}') {
            e += c.len_utf8();
        } else {
            break;
        }
    }
    e
}

struct GridCase {
    text: String,
    word_start: usize,
    word_len: usize,
    /// expected kind by construction (None: take the reference scanner's)
    kind: Option<Kind>,
    /// the delimiter continues an identifier
    continues: bool,
    class: usize,
}

fn build_grid(index: u64) -> GridCase {
    let mut i = index as usize;
    let d = i % DELIMS.len();
    i /= DELIMS.len();
    let sl = i % SUFFIX_LENS.len();
    i /= SUFFIX_LENS.len();
    let p = i % PADS.len();
    i /= PADS.len();
    let li = i % N_LEN;
    i /= N_LEN;
    let class = i % N_CLASSES;
    let len = length_of(li);
    let pad = PADS[p];
    let mut word = String::with_capacity(len + 4);
    let lower = b"abcdefghijklmnopqrstuvwxyz";
    let mut kind = Some(Kind::Ident);
    match class {
        0 => (0..len).for_each(|k| word.push(lower[(k * 7 + len) % 26] as char)),
        1 => (0..len).for_each(|k| word.push((lower[(k * 5 + len) % 26] as char).to_ascii_uppercase())),
        2 => (0..len).for_each(|k| {
            let c = lower[(k * 3 + len) % 26] as char;
            word.push(if k % 2 == 0 { c.to_ascii_uppercase() } else { c })
        }),
        3 => (0..len).for_each(|k| {
            if k > 0 && k % 3 == 0 {
                word.push((b'0' + (k % 10) as u8) as char)
            } else {
                word.push(lower[(k + len) % 26] as char)
            }
        }),
        4 => (0..len).for_each(|k| {
            if k % 4 == 0 {
                word.push('_')
            } else {
                word.push(lower[(k + len) % 26] as char)
            }
        }),
        5 => {
            // one non-ASCII char at a position derived from the length
            let pos = (li * 13 + p) % len;
            let ch = ['é', 'Ж', '中', '😀'][len % 4];
            for k in 0..len {
                if k == pos {
                    word.push(ch)
                } else {
                    word.push(lower[(k + 1) % 26] as char)
                }
            }
        }
        6 => {
            // a keyword, letter case pattern from the length index
            let kw = KEYWORDS[li % KEYWORDS.len()];
            for (k, c) in kw.chars().enumerate() {
                word.push(match (li / KEYWORDS.len()) % 3 {
                    0 => c,
                    1 => c.to_ascii_uppercase(),
                    _ => {
                        if k % 2 == 0 {
                            c.to_ascii_uppercase()
                        } else {
                            c
                        }
                    }
                });
            }
            kind = Some(Kind::Keyword);
        }
        7 => {
            // keyword plus one extra character: an identifier
            let kw = KEYWORDS[li % KEYWORDS.len()];
            word.push_str(kw);
            word.push(['x', '_', '1', 'é'][li % 4]);
            // `asmx` etc. are plain identifiers
        }
        8 => {
            (0..len).for_each(|k| word.push((b'0' + ((k * 7 + 1) % 10) as u8) as char));
            kind = None;
        }
        9 => {
            word.push('$');
            (0..len).for_each(|k| word.push(b"0123456789abcdefABCDEF"[(k * 5) % 22] as char));
            kind = None;
        }
        _ => {
            word.push('%');
            (0..len).for_each(|k| word.push(if (k * 3) % 5 < 2 { '1' } else { '0' }));
            kind = None;
        }
    }
    let delim = DELIMS[d];
    let mut text = " ".repeat(pad);
    let word_start = text.len();
    text.push_str(&word);
    let word_len = word.len();
    let mut continues = false;
    if !(delim.is_empty()) {
        text.push_str(delim);
        continues = class <= 7 && (delim == "é" || delim == "中");
        // suffix: starts with a blank so that the delimiter's own token is well separated
        let sl = SUFFIX_LENS[sl];
        if sl > 0 {
            text.push(' ');
            for k in 1..sl {
                text.push(if k % 9 == 0 { ' ' } else { lower[k % 26] as char });
            }
        }
    }
    GridCase { text, word_start, word_len, kind, continues, class }
}

/// Clause (a): losslessness and shape of the token list.
fn check_lossless(input: &str) -> Result<usize, Failure> {
    let toks = DelphiLexer {}.lex(input);
    let mut pos = 0usize;
    let n = toks.len();
    if n == 0 {
        return Err(Failure::new("lossless", "no tokens at all (no EOF token)".into()));
    }
    for (i, t) in toks.iter().enumerate() {
        let ws = t.get_leading_whitespace();
        let c = t.get_content();
        if !input[pos..].starts_with(ws) || !input[pos + ws.len()..].starts_with(c) {
            return Err(Failure::new(
                "lossless",
                format!("token {i} does not continue the input at offset {pos}: blanks {ws:?} content {:?}", short(c, 40)),
            ));
        }
        if !ws.chars().all(is_blank) {
            return Err(Failure::new(
                "leading-nonblank",
                format!("token {i} has non-blank characters in its leading part {ws:?}"),
            ));
        }
        let is_eof = t.get_token_type() == RawTokenType::Eof;
        if is_eof != (i == n - 1) {
            return Err(Failure::new(
                "eof",
                format!("EOF token at position {i} of {n} / missing last EOF"),
            ));
        }
        if is_eof {
            if !c.is_empty() {
                return Err(Failure::new("eof", format!("EOF token has content {c:?}")));
            }
        } else {
            match c.chars().next() {
                None => {
                    return Err(Failure::new(
                        "empty-token",
                        format!("token {i} ({:?}) has empty content", t.get_token_type()),
                    ))
                }
                Some(ch) if is_blank(ch) => {
                    return Err(Failure::new(
                        "starts-blank",
                        format!("token {i} content starts with a blank: {:?}", short(c, 20)),
                    ))
                }
                _ => {}
            }
        }
        pos += ws.len() + c.len();
    }
    if pos != input.len() {
        return Err(Failure::new(
            "lossless",
            format!("tokens cover {pos} of {} bytes", input.len()),
        ));
    }
    Ok(n - 1)
}

/// Clause (c): boundaries and coarse kinds equal the reference scanner's.
fn check_vs_refscan(input: &str) -> Result<(), Failure> {
    let a = refscan::scan_impl(input);
    let b = refscan::scan(input);
    for k in 0..a.len().min(b.len()) {
        let (x, y) = (a[k], b[k]);
        if x.start != y.start || x.end != y.end || x.kind != y.kind {
            return Err(Failure::new(
                "differential",
                format!(
                    "token {k}: lexer has {:?} [{}..{}] {:?}, reference scanner has {:?} [{}..{}] {:?}",
                    x.kind,
                    x.start,
                    x.end,
                    short(&input[x.start..x.end], 40),
                    y.kind,
                    y.start,
                    y.end,
                    short(&input[y.start..y.end.min(input.len())], 40)
                ),
            )
            .fact(format!("impl:{:?}", x.kind))
            .fact(format!("ref:{:?}", y.kind)));
        }
    }
    if a.len() != b.len() {
        return Err(Failure::new(
            "differential",
            format!("lexer yields {} tokens, reference scanner {}", a.len(), b.len()),
        ));
    }
    Ok(())
}

/// Clause (d): the three identifier routines agree with the model at `offset`.
fn check_routines(s: &str, offset: usize) -> Result<(), Failure> {
    let m = model_ident_end(s, offset);
    let g = h1::identifier_end_generic(s, offset);
    let d = h1::identifier_end_dispatch(s, offset);
    let a = h1::identifier_end_avx2(s, offset);
    if g != m || d != m || a.is_some_and(|a| a != m) {
        return Err(Failure::new(
            "routines",
            format!(
                "identifier end at offset {offset} of {:?}: model {m}, generic {g}, dispatch {d}, avx2 {a:?}",
                short(s, 120)
            ),
        )
        .fact(if g != m { "generic-differs" } else { "vector-differs" }));
    }
    Ok(())
}

const SWEEP_CHARS: &[char] = &['é', 'ÿ', 'Ж', '中', '\u{3000}', '😀', '\u{80}', '\u{7ff}'];

impl Prop for C13Prop {
    fn id(&self) -> &'static str {
        "C13"
    }
    fn rule(&self) -> String {
        format!("Streams: grid = the full product ({} cases) of word class (lower/upper/mixed/with digits/with underscores/one non-ASCII char/keyword in 3 letter cases/keyword+1 char/decimal/hex/binary) x length 1..200,255,256,257,4097 x prefix pad {{0,1,2,3,7,8,15,16,17,31,32,33,63,64}} x suffix length {{0,1,30,31,32,33,64,100}} x 20 following-delimiter classes (EOF, blanks incl. CR/NUL/U+3000, operators, quote, brace, DEL, non-ASCII letters that continue an identifier); sweep = each of 128 ASCII codes and 8 multi-byte characters at each position of an 80-char word with >= 32 bytes following; random (proptest tapes) = soup / arbitrary UTF-8 / mutated seeds. Oracles: (a) tokens' blanks+contents concatenate to the input, one EOF token, last, every other content non-empty and starting at a non-blank, leading parts blank-only; (b) the token at the word's offset has exactly the constructed extent and kind; (c) boundaries and coarse kinds equal an independent reference scanner's; (d) via hook H1, the AVX2 routine == portable routine == run-time-selected routine == a 3-line model, at the word start, inside it and at every char boundary of the random strings. Non-trivial = a token longer than 32 bytes or containing a non-ASCII character, or >= 10 tokens; distinct by construction (grid) / by input hash (random).", grid_size())
    }
    fn assumptions(&self) -> Vec<String> {
        vec![
            "the Delphi lexical rules are those written down in DESIGN.md Appendix B (independent reference scanner)".into(),
            "AVX2 is available on the machine running the check (otherwise clause (d) compares only the portable routine and the dispatcher with the model)".into(),
        ]
    }
    fn streams(&self, tier: Tier) -> Vec<Stream> {
        let q = tier == Tier::Quick;
        vec![
            Stream::exhaustive("grid", grid_size()),
            Stream::exhaustive("sweep", (128 + SWEEP_CHARS.len() as u64) * 80),
            Stream::random("any", if q { 5000 } else { 60000 }, 400),
            Stream::random("any_chk", if q { 1500 } else { 15000 }, 400).chk(),
            Stream::random("words", if q { 3000 } else { 40000 }, 300),
        ]
    }
    fn generate(&self, stream: &str, t: &mut Tape) -> Option<Case> {
        let stream = stream.trim_end_matches("_chk");
        match stream {
            "any" => {
                let (input, g) = common::gen_any_input(t, 80);
                Some(Case::text(g, input, Cfg::default()))
            }
            "words" => {
                // strings made of identifier-ish runs with arbitrary separators, for clause (d)
                let n = 1 + t.below(6);
                let mut s = String::new();
                for _ in 0..n {
                    let len = match t.below(4) {
                        0 => t.below(8),
                        1 => 24 + t.below(20),
                        2 => 56 + t.below(20),
                        _ => t.below(200),
                    };
                    for _ in 0..len {
                        match t.below(40) {
                            0 => s.push('_'),
                            1 => s.push(*t.pick(&['é', '中', 'ÿ', '😀', '\u{3000}', '\u{80}'])),
                            2..=8 => s.push((b'0' + t.below(10) as u8) as char),
                            9..=20 => s.push((b'A' + t.below(26) as u8) as char),
                            _ => s.push((b'a' + t.below(26) as u8) as char),
                        }
                    }
                    match t.below(6) {
                        0 => s.push((t.below(128) as u8) as char),
                        1 => s.push_str(t.pick_str(crate::gen::text::OTHER_CHARS)),
                        2 => s.push_str(t.pick_str(crate::gen::text::SIG_ASCII)),
                        3 => s.push_str(t.pick_str(&["@", "`", "[", "{", "/", ":", "Z", "z", "A", "a", "0", "9", "^", "~"])),
                        _ => s.push(' '),
                    }
                }
                Some(Case::text("words", s, Cfg::default()))
            }
            _ => None,
        }
    }
    fn enumerate(&self, stream: &str, index: u64) -> Option<Case> {
        match stream {
            "grid" => {
                let g = build_grid(index);
                let mut c = Case::text("grid", g.text, Cfg::default());
                c.extra = serde_json::json!({"grid": index});
                Some(c)
            }
            "sweep" => {
                let pos = (index % 80) as usize;
                let ci = (index / 80) as usize;
                let ch = if ci < 128 { ci as u8 as char } else { SWEEP_CHARS[ci - 128] };
                let mut s = String::new();
                for k in 0..80 {
                    if k == pos {
                        s.push(ch)
                    } else {
                        s.push((b'a' + (k % 26) as u8) as char)
                    }
                }
                s.push_str(" tail_of_at_least_thirty_two_bytes_follows_here;");
                let mut c = Case::text("sweep", s, Cfg::default());
                c.extra = serde_json::json!({"sweep": index});
                Some(c)
            }
            _ => None,
        }
    }
    fn text_shrink(&self) -> bool {
        true
    }
    fn check(&self, case: &Case, ctx: &mut Ctx) -> Outcome {
        let input = &case.input;
        let ntok = match check_lossless(input) {
            Ok(n) => n,
            Err(f) => return Outcome::Fail(f),
        };
        let mut nontrivial = ntok >= 10;
        if let Some(idx) = case.extra.get("grid").and_then(|v| v.as_u64()) {
            let g = build_grid(idx);
            if g.text != *input {
                return Outcome::Discard("grid-text-mismatch");
            }
            // (b) token at the word's offset
            let toks = refscan::scan_impl(input);
            let Some(tok) = toks.iter().find(|t| t.start == g.word_start) else {
                return Outcome::Fail(Failure::new(
                    "grid-extent",
                    format!("no token starts at the word's offset {} in {:?}", g.word_start, short(input, 100)),
                ));
            };
            let rs = refscan::scan(input);
            let rtok = rs.iter().find(|t| t.start == g.word_start);
            let expect_end = if g.class <= 7 {
                if g.continues {
                    // the delimiter is a letter: the identifier runs through it to the blank
                    model_ident_end(input, g.word_start)
                } else {
                    g.word_start + g.word_len
                }
            } else {
                match rtok {
                    Some(r) => r.end,
                    None => return Outcome::Discard("refscan-no-token"),
                }
            };
            let expect_kind = match g.kind {
                Some(Kind::Keyword) if g.continues => Kind::Ident,
                Some(k) => k,
                None => Kind::Number,
            };
            if tok.end != expect_end || tok.kind != expect_kind {
                return Outcome::Fail(
                    Failure::new(
                        "grid-extent",
                        format!(
                            "word of class {} at offset {}: expected {:?} ending at {}, lexer gives {:?} ending at {} ({:?})",
                            g.class,
                            g.word_start,
                            expect_kind,
                            expect_end,
                            tok.kind,
                            tok.end,
                            short(&input[tok.start..tok.end], 60)
                        ),
                    )
                    .fact(format!("class:{}", g.class)),
                );
            }
            // (d) at the start, inside, and just before the end of the word
            for off in [g.word_start, g.word_start + g.word_len / 2, g.word_start + g.word_len.saturating_sub(1)] {
                if input.is_char_boundary(off) {
                    if let Err(f) = check_routines(input, off) {
                        return Outcome::Fail(f);
                    }
                }
            }
            nontrivial = g.word_len > 32 || !input[g.word_start..g.word_start + g.word_len].is_ascii();
            ctx.class_if(g.word_len > 32, "word>32B");
        } else {
            // (d) at every char boundary (bounded for long inputs)
            let step = (input.len() / 600).max(1);
            let mut k = 0usize;
            for (off, _) in input.char_indices() {
                k += 1;
                if k % step != 0 {
                    continue;
                }
                if let Err(f) = check_routines(input, off) {
                    return Outcome::Fail(f);
                }
            }
            let long_tok = refscan::scan_impl(input)
                .iter()
                .any(|t| t.end - t.start > 32 || !input[t.start..t.end].is_ascii());
            ctx.class_if(long_tok, "token>32B-or-nonascii");
            nontrivial = nontrivial || long_tok;
        }
        // (c)
        if let Err(f) = check_vs_refscan(input) {
            return Outcome::Fail(f);
        }
        Outcome::Pass { nontrivial }
    }
}
