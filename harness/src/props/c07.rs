//! C07 — regions with formatting disabled and asm bodies are kept byte for byte (DESIGN §5 C07).

use crate::engine::*;
use crate::gen::layout::{self, CommentPolicy, Style};
use crate::gen::prog::{self, PTok, Prog};
use crate::model::nonblank::nonblank;
use crate::model::refscan::{self, Kind};
use crate::model::toggle;
use crate::props::{c01, wf};

pub struct C07Prop;
pub static C07: C07Prop = C07Prop;

const OFF: &[&str] = &[
    "// pasfmt off", "//pasfmt off", "//pasfmt OFF", "{ pasfmt off }", "{pasfmt off}", "(* pasfmt off *)",
    "(* PasFmt Off trailing words *)", "//  PASFMT   off", "{ pasfmt off: reason }", "// pasfmt off and more",
    // trailing blanks belong to a `//` comment (and so to the region)
    "// pasfmt off  ", "//pasfmt off\t",
];
const ON: &[&str] = &[
    "// pasfmt on", "//pasfmt on", "//pasfmt ON", "{ pasfmt on }", "{pasfmt on}", "(* pasfmt on *)",
    "(* PasFmt On again *)", "//\tpasfmt\ton", "// pasfmt on   ", "//pasfmt on \t ", "// pasfmt on\t",
];
/// spellings that must NOT toggle
const NOT_TOGGLES: &[&str] = &[
    "// pasfmt offf", "// pasfmt: off", "//pasfmtoff", "{$pasfmt off}", "// pasfmt\u{a0}off", "// pasfmt of",
    "{ pasfmt onn }", "// pas fmt off", "// pasfmt", "// pasfmt 0ff", "//  xpasfmt off", "(* pasfmt- off *)",
];

fn ctok(text: &str, own_line: bool, depth: u16) -> PTok {
    let kind = if text.starts_with("//") {
        Kind::CommentLine
    } else if text.starts_with("{$") {
        Kind::DirectiveCompiler
    } else {
        Kind::CommentBlock
    };
    PTok { text: text.to_string(), kind, line_start: own_line, depth, in_anon: false, inserted: true, fixed_gap: None }
}

/// Insert 1-2 verbatim regions (and, sometimes, look-alike comments) at arbitrary gaps.
fn insert_toggles(p: &Prog, t: &mut Tape) -> Prog {
    let n = p.toks.len();
    let mut ins: Vec<(usize, PTok)> = vec![]; // (before token index, token)
    // sandwich: a statement that starts in one region and ends in the next, with an enabled
    // stretch in its middle (toggles written inline, so that they do not split the statement)
    let sandwich = t.chance(1, 5);
    if sandwich {
        let starts: Vec<usize> = (0..n).filter(|i| p.toks[*i].line_start || *i == 0).collect();
        let cands: Vec<(usize, usize)> = starts
            .iter()
            .enumerate()
            .map(|(k, a)| (*a, starts.get(k + 1).copied().unwrap_or(n)))
            .filter(|(a, e)| e - a >= 7)
            .collect();
        if !cands.is_empty() {
            let (a, e) = cands[t.below(cands.len() as u32) as usize];
            let on_at = a + 2 + t.below(((e - a) / 2 - 1) as u32) as usize;
            let off_at = on_at + 2 + t.below((e - 1 - on_at - 2).max(1) as u32) as usize;
            let off_at = off_at.min(e - 1);
            let inline_on = *t.pick(&["{ pasfmt on }", "(* pasfmt on *)", "{pasfmt on}"]);
            let inline_off = *t.pick(&["{ pasfmt off }", "(* pasfmt off *)", "{pasfmt off}"]);
            ins.push((a, ctok(t.pick_str(OFF), true, p.toks[a].depth)));
            ins.push((on_at, ctok(inline_on, false, p.toks[on_at].depth)));
            ins.push((off_at, ctok(inline_off, false, p.toks[off_at].depth)));
            if t.chance(2, 3) {
                ins.push((e, ctok(t.pick_str(ON), true, p.toks.get(e).map_or(0, |x| x.depth))));
            }
        }
    }
    let regions = if sandwich && !ins.is_empty() { 0 } else { 1 + t.below(2) };
    let mut pos = 0usize;
    for _ in 0..regions {
        if pos >= n {
            break;
        }
        let a = pos + t.below((n - pos) as u32 + 1) as usize;
        let a = a.min(n);
        let own = t.chance(2, 3);
        ins.push((a, ctok(t.pick_str(OFF), own, p.toks.get(a).map_or(0, |x| x.depth))));
        if t.chance(1, 6) {
            // off off
            ins.push((a, ctok(t.pick_str(OFF), true, 0)));
        }
        if t.chance(1, 5) || a >= n {
            // open region: runs to the end of the file
            break;
        }
        let b = a + 1 + t.below((n - a) as u32) as usize;
        let b = b.min(n);
        let own = t.chance(2, 3);
        ins.push((b, ctok(t.pick_str(ON), own, p.toks.get(b).map_or(0, |x| x.depth))));
        pos = b;
    }
    if t.chance(1, 3) {
        let a = t.below(n as u32 + 1) as usize;
        ins.push((a, ctok(t.pick_str(NOT_TOGGLES), true, p.toks.get(a).map_or(0, |x| x.depth))));
    }
    if t.chance(1, 8) {
        // a stray `on`
        let a = t.below(n as u32 + 1) as usize;
        ins.push((a, ctok(t.pick_str(ON), true, 0)));
    }
    // not between `class` and `of` / `;`: an own-line comment there makes the parser open a class
    // body (finding F-C14-comment-class-of; the comment generator avoids the spot as well)
    ins.retain(|(a, _)| {
        !(*a > 0
            && *a < n
            && p.toks[*a - 1].text.eq_ignore_ascii_case("class")
            && (p.toks[*a].text.eq_ignore_ascii_case("of") || p.toks[*a].text == ";"))
    });
    ins.sort_by_key(|x| x.0);
    // where do the toggles fall? (signatures of findings about regions that cut a statement)
    let mut placement: Vec<&'static str> = vec![];
    for (a, tok) in &ins {
        if toggle::parse_toggle(&tok.text).is_none() {
            continue;
        }
        let boundary = *a >= n || p.toks[*a].line_start || *a == 0;
        placement.push(match (boundary, tok.line_start) {
            (true, _) => "toggle:at-statement-boundary",
            (false, true) => "toggle:own-line-mid-statement",
            (false, false) => "toggle:inline-mid-statement",
        });
    }
    let mut out = Prog { toks: vec![], marks: vec![], tags: p.tags.clone() };
    for pl in placement {
        out.tags.insert(pl);
    }
    let mut k = 0;
    for (i, tok) in p.toks.iter().enumerate() {
        while k < ins.len() && ins[k].0 == i {
            out.toks.push(ins[k].1.clone());
            k += 1;
        }
        out.toks.push(tok.clone());
    }
    while k < ins.len() {
        out.toks.push(ins[k].1.clone());
        k += 1;
    }
    out.tags.insert("toggles");
    out.tags.insert(if sandwich { "toggle:sandwich" } else { "toggle:random-placement" });
    out
}

/// Is there, outside every verbatim span, a pair of tokens on one line separated by anything
/// but nothing or one space? (Gaps in front of a toggle comment are kept as typed: F-C08-toggle-gap.)
fn noncanonical_gap_outside(out: &str) -> bool {
    let toks = refscan::scan(out);
    let spans = verbatim_spans(out);
    let inside = |pos: usize| spans.iter().any(|(a, b, _, _)| pos >= *a && pos < *b);
    toks.windows(2).any(|w| {
        let (a, b) = (&w[0], &w[1]);
        if b.kind == Kind::Eof || inside(a.start) || inside(b.start) || a.asm || b.asm {
            return false;
        }
        if b.kind.is_comment() && toggle::parse_toggle(b.text(out)).is_some() {
            return false;
        }
        let gap = &out[b.ws_start..b.start];
        !gap.contains('\n') && !gap.contains('\r') && !gap.is_empty() && gap != " "
    })
}

/// Verbatim spans of the input: (start, end, open_to_eof, what).
pub fn verbatim_spans(input: &str) -> Vec<(usize, usize, bool, &'static str)> {
    let toks = refscan::scan(input);
    let mut v = vec![];
    let mut off: Option<usize> = None;
    let mut asm_first: Option<usize> = None;
    let mut asm_last = 0usize;
    for t in &toks {
        if t.kind.is_comment() {
            match toggle::parse_toggle(t.text(input)) {
                Some(false) => {
                    if off.is_none() {
                        off = Some(t.start);
                    }
                }
                Some(true) => {
                    match off.take() {
                        Some(a) => v.push((a, t.end, false, "region")),
                        // a stray `on` comment is itself kept verbatim
                        None => v.push((t.start, t.end, false, "stray-on")),
                    }
                }
                None => {}
            }
        }
        if off.is_none() {
            if t.asm {
                if asm_first.is_none() {
                    asm_first = Some(t.start);
                }
                asm_last = t.end;
            } else if let Some(a) = asm_first.take() {
                v.push((a, asm_last, false, "asm"));
            }
        }
    }
    if let Some(a) = off {
        v.push((a, input.len(), true, "open-region"));
    }
    v
}

const PURE_KEYWORDS: &[&str] = &[
    "begin", "end", "if", "then", "else", "procedure", "function", "var", "const", "type", "for", "to", "do",
    "while", "repeat", "until", "case", "of", "try", "except", "finally", "uses", "unit", "interface",
    "implementation", "class", "record", "program", "nil", "not", "and", "or", "div", "mod",
];

impl Prop for C07Prop {
    fn id(&self) -> &'static str {
        "C07"
    }
    fn rule(&self) -> String {
        "Streams (proptest tapes): prog / progbig = grammar-derived programs (keywords in upper case so that formatting is observable; routines with asm bodies whose instruction lines have irregular spacing, labels, comments, `;`-separated instructions) into which 1-2 verbatim regions are inserted at arbitrary token gaps: `off` spellings in //, { } and (* *) comments in any letter case with extra blanks or trailing words, matching `on` spellings or none (region runs to the end of the file), `off off`, stray `on`, and look-alike comments that must not toggle (`pasfmt offf`, `pasfmt: off`, `pasfmtoff`, `{$pasfmt off}`, NBSP instead of a blank); rendered in wild / pretty / compact layouts; x generated configuration. Oracle: C01's non-blank equality, then with the k-th non-blank of the input mapped to the k-th of the output: every region (from the first char of the off comment to the last char of the on comment, or to the end of the text) and every asm body (first to last instruction token) is byte-identical in the output; outside the spans every upper-case pure keyword comes out lower-case (the code is still formatted). Non-trivial = a span containing a line break and a token the formatter would otherwise change, plus a token outside; distinct by hash of (input, configuration)."
            .into()
    }
    fn assumptions(&self) -> Vec<String> {
        vec![
            "regions are located on the input with the harness's own toggle recogniser; asm instruction tokens are those the reference scanner lexes in asm mode".into(),
            "lone-CR line endings inside regions are exercised only through the known finding F-C07-cr".into(),
        ]
    }
    fn streams(&self, tier: Tier) -> Vec<Stream> {
        wf::wf_streams(tier, 3)
    }
    fn generate(&self, stream: &str, t: &mut Tape) -> Option<Case> {
        let cfg = Cfg::gen_unsaturated(t);
        let opts = prog::Opts { asm: true, ..Default::default() };
        let mut p = prog::gen_prog(t, wf::fuel_for(stream), opts);
        if p.toks.is_empty() {
            return None;
        }
        for tok in p.toks.iter_mut().filter(|x| x.kind == Kind::Keyword && !x.inserted) {
            tok.text = tok.text.to_ascii_uppercase();
        }
        let p = layout::insert_comments(&p, t, CommentPolicy::LineEdges, 25);
        let with_toggles = !t.chance(1, 6);
        let p = if with_toggles { insert_toggles(&p, t) } else { p };
        let style = *t.pick(&[Style::Wild, Style::Pretty, Style::Wild, Style::Compact]);
        let mut gaps = layout::gen_layout(&p, t, style);
        layout::own_line_fixup(&p, &mut gaps);
        let input = layout::render(&p, &gaps);
        if !wf::scans_to(&input, &p) {
            return None;
        }
        // sandwich placement: a second rendering that differs only in the layout of the enabled
        // stretch inside the statement (code outside the regions is formatted, so the output
        // may not depend on it)
        let mut input2 = None;
        if p.tags.contains("toggle:sandwich") {
            let i_on = p.toks.iter().position(|x| x.inserted && !x.line_start && toggle::parse_toggle(&x.text) == Some(true));
            if let Some(i_on) = i_on {
                let i_off = p.toks.iter().enumerate().skip(i_on + 1).find(|(_, x)| x.inserted && toggle::parse_toggle(&x.text) == Some(false)).map(|(k, _)| k);
                if let Some(i_off) = i_off {
                    let fresh = layout::relayout(&p, &gaps, t);
                    let mut g2 = gaps.clone();
                    for k in (i_on + 2)..i_off {
                        if !gaps[k].fixed {
                            g2[k] = fresh[k].clone();
                        }
                    }
                    let r2 = layout::render(&p, &g2);
                    if g2 != gaps && wf::scans_to(&r2, &p) {
                        input2 = Some(r2);
                    }
                }
            }
        }
        let w = wf::Wf { prog: p, gaps, input, style };
        let mut c = wf::case_of(&w, cfg, stream);
        c.input2 = input2;
        // line-ending variants of the whole file: the regions must survive byte for byte whatever
        // the endings are (lone CR is the open finding F-C07-cr)
        match if c.input2.is_some() { 7 } else { t.below(8) } {
            0 | 1 => {
                c.input = c.input.replace('\n', "\r\n");
                c.tags.push("endings:crlf".into());
            }
            2 => {
                c.input = c.input.replace('\n', "\r");
                c.tags.push("endings:cr".into());
            }
            _ => {}
        }
        Some(c)
    }
    fn check(&self, case: &Case, ctx: &mut Ctx) -> Outcome {
        let x = &case.input;
        let out = format_with(&case.cfg, x);
        let logf = logcap::facts();
        if let Some(r2) = &case.input2 {
            // code outside the regions is still formatted: re-laying out an enabled stretch
            // between two regions changes nothing
            let out2 = format_with(&case.cfg, r2);
            ctx.class("asserted:enabled-stretch-between-regions-is-formatted");
            if out2 != out {
                let d = out.bytes().zip(out2.bytes()).position(|(a, b)| a != b).unwrap_or(out.len().min(out2.len()));
                let mut s0 = d.saturating_sub(30);
                while !out.is_char_boundary(s0) {
                    s0 -= 1;
                }
                let a: String = out[s0..].chars().take(70).collect();
                let mut s1 = d.saturating_sub(30).min(out2.len());
                while !out2.is_char_boundary(s1) {
                    s1 -= 1;
                }
                let b: String = out2[s1..].chars().take(70).collect();
                // The wrapper mostly leaves a logical line that contains ignored tokens as typed
                // (line breaks, indentation: open finding); the per-token rules still apply to its
                // enabled tokens. Is the spacing between two tokens on one line canonical?
                let bad_gap = noncanonical_gap_outside(&out) || noncanonical_gap_outside(&out2);
                // the token at (or after) the first difference, and how its logical line
                // relates to the regions
                let to = refscan::scan(&out);
                let k = to.iter().position(|t| t.start >= d).unwrap_or(to.len().saturating_sub(1));
                let context = crate::props::c08::toggle_context(x, k);
                return Outcome::Fail(
                    Failure::new(
                        "outside-not-formatted",
                        format!("the layout of enabled code between two regions changes the output: {:?} vs {:?}", a, b),
                    )
                    .fact(if bad_gap { "noncanonical-gap-outside-regions" } else { "gaps-canonical" })
                    .fact(context)
                    .facts(&logcap::facts())
                    .facts(&logf),
                );
            }
        }
        if let Err(f) = c01::check_nonblank(x, &out) {
            return Outcome::Fail(f.fact("nonblank-precondition"));
        }
        let ni = nonblank(x);
        let no = nonblank(&out);
        // index of the first non-blank at or after byte offset `pos`
        let idx_at = |pos: usize| ni.partition_point(|(o, _)| *o < pos);
        let spans = verbatim_spans(x);
        let mut nontrivial = false;
        for (a, b, open, what) in &spans {
            let k0 = idx_at(*a);
            let k1 = idx_at(*b); // exclusive
            if k1 <= k0 {
                continue;
            }
            let o_start = no[k0].0;
            let (o_end, in_end) = if *open {
                (out.len(), x.len())
            } else {
                let (p, c) = no[k1 - 1];
                let (pi, ci) = ni[k1 - 1];
                (p + c.len_utf8(), pi + ci.len_utf8())
            };
            let want = &x[ni[k0].0..in_end];
            let got = &out[o_start..o_end];
            if want != got {
                let d = want.bytes().zip(got.bytes()).position(|(p, q)| p != q).unwrap_or(want.len().min(got.len()));
                let mut s0 = d.saturating_sub(20);
                while !want.is_char_boundary(s0) {
                    s0 -= 1;
                }
                let ctx_w: String = want[s0..].chars().take(50).collect();
                let mut s1 = d.saturating_sub(20).min(got.len());
                while !got.is_char_boundary(s1) {
                    s1 -= 1;
                }
                let ctx_g: String = got[s1..].chars().take(50).collect();
                return Outcome::Fail(
                    Failure::new(
                        "verbatim",
                        format!(
                            "{what} starting at input offset {a} is not reproduced byte for byte: first difference {d} bytes in: input {:?} vs output {:?}",
                            ctx_w, ctx_g
                        ),
                    )
                    .fact(format!("span:{what}"))
                    .fact(if want.contains("{$") || want.contains("(*$") { "span-contains-directive" } else { "span-without-directive" })
                    .facts(&logf),
                );
            }
            if want.contains('\n') && (want.contains("  ") || want.chars().any(|c| c.is_ascii_uppercase())) {
                nontrivial = true;
            }
        }
        // outside the spans the code is still formatted: upper-case pure keywords are lowered
        let toks = refscan::scan(x);
        let inside = |pos: usize| spans.iter().any(|(a, b, _, _)| pos >= *a && pos < *b);
        let mut outside_tokens = 0;
        for t in &toks {
            if t.kind == Kind::Eof || inside(t.start) {
                continue;
            }
            outside_tokens += 1;
            let txt = t.text(x);
            if t.kind == Kind::Keyword
                && !t.asm
                && txt.chars().any(|c| c.is_ascii_uppercase())
                && PURE_KEYWORDS.contains(&txt.to_ascii_lowercase().as_str())
            {
                let k = idx_at(t.start);
                let got = &out[no[k].0..no[k].0 + txt.len()];
                if got != txt.to_ascii_lowercase() {
                    return Outcome::Fail(
                        Failure::new(
                            "not-formatted-outside",
                            format!(
                                "keyword {:?} at input offset {} lies outside every verbatim span but was not lower-cased (output has {:?})",
                                txt, t.start, got
                            ),
                        )
                        .facts(&logf),
                    );
                }
            }
        }
        wf::classes(case, ctx);
        for (_, _, _, what) in &spans {
            ctx.class(&format!("span:{what}"));
        }
        Outcome::Pass { nontrivial: nontrivial && outside_tokens > 0 }
    }
}
