//! C19 — configuration is resolved by a fixed precedence and rejects unknown settings (DESIGN §5 C19).

use serde::{Deserialize, Serialize};

use crate::engine::cli::{self, Scratch};
use crate::engine::*;

pub struct C19Prop;
pub static C19: C19Prop = C19Prop;

/// A probe source on which every option is observable.
pub const PROBE: &str = "procedure   Foo;\nbegin\n  if  A   then begin\n    CallSomething( AAAAAAAAAAAAAAAA, BBBBBBBBBBBBBBBBBBBBBB, CCCCCCCCCCCCCCCCCCCCCCCC, DDDDDDDDDDDDDDDDDDDD, EEEEEEEEEEEEEEEE );\n  end;\n  S :=\n'''\n  text\n''';\n  X := Ünï  +  1;\nend;\n";

#[derive(Serialize, Deserialize, Clone, Debug, Default)]
pub struct Scn {
    /// option lines in the nearest pasfmt.toml (key, toml value text)
    pub file_opts: Vec<(String, String)>,
    /// depth of the nearest pasfmt.toml above the working directory (0 = in it); None = no file
    pub depth: Option<u32>,
    /// depth of the working directory below the scratch root (>= depth)
    pub cwd_depth: u32,
    /// decoy files further up: (levels above the nearest file, option lines)
    pub decoys: Vec<(u32, Vec<(String, String)>)>,
    /// use --config-file (absolute / relative) instead of discovery; the file is then placed aside
    pub explicit: Option<String>,
    /// -C options in order (key, value)
    pub cli_opts: Vec<(String, String)>,
    /// invalid variant: "", "unknown-key-file", "unknown-key-cli", "nested-key", "bad-type-file", "bad-type-cli",
    /// "out-of-range", "bad-enum", "missing-config-file", "dir-config-file", "no-equals"
    pub invalid: String,
    /// the file to format lies in a sub-directory of the working directory that has a
    /// pasfmt.toml of its own (which must not be used: the search starts at the working directory)
    #[serde(default)]
    pub target_below: bool,
}

const KEYS: &[&str] = &["wrap_column", "begin_style", "format_multiline_strings", "use_tabs", "tab_width", "continuation_indents", "line_ending"];

fn gen_value(t: &mut Tape, key: &str, toml: bool) -> String {
    let q = |s: &str| if toml { format!("\"{s}\"") } else { s.to_string() };
    match key {
        "wrap_column" => (*t.pick(&[40u32, 60, 80, 100, 120, 30, 200, 10, 12, 16, 24, 8, 4294967295])).to_string(),
        "begin_style" => q(*t.pick(&["auto", "always_wrap"])),
        "format_multiline_strings" | "use_tabs" => (*t.pick(&["true", "false"])).to_string(),
        "tab_width" => (*t.pick(&[2u32, 4, 3, 8, 1, 16, 0])).to_string(),
        "continuation_indents" => (*t.pick(&[2u32, 1, 3, 0])).to_string(),
        _ => q(*t.pick(&["lf", "crlf"])),
    }
}

fn apply(cfg: &mut Cfg, key: &str, val: &str) {
    let v = val.trim_matches('"');
    match key {
        "wrap_column" => cfg.wrap_column = v.parse().unwrap_or(cfg.wrap_column),
        "begin_style" => cfg.begin_always_wrap = v == "always_wrap",
        "format_multiline_strings" => cfg.format_multiline_strings = v == "true",
        "use_tabs" => cfg.use_tabs = v == "true",
        "tab_width" => cfg.tab_width = v.parse().unwrap_or(cfg.tab_width),
        "continuation_indents" => cfg.continuation_indents = v.parse().unwrap_or(cfg.continuation_indents),
        "line_ending" => cfg.crlf = v == "crlf",
        _ => {}
    }
}

fn toml_bytes(opts: &[(String, String)], invalid: &str) -> Vec<u8> {
    let mut v = toml_of(opts).into_bytes();
    match invalid {
        // an ANSI-encoded comment: not valid UTF-8, so the file cannot be read as TOML
        "non-utf8-file" => v.extend_from_slice(b"# caf\xe9 \xff\n"),
        "syntax-error-file" => v.extend_from_slice(b"tab_width = = 3\n"),
        _ => {}
    }
    v
}

fn toml_of(opts: &[(String, String)]) -> String {
    let mut s = String::from("# generated\n");
    for (k, v) in opts {
        s.push_str(&format!("{k} = {v}\n"));
    }
    s
}

fn gen_opts(t: &mut Tape, toml: bool, max: u32) -> Vec<(String, String)> {
    let n = t.below(max + 1);
    let mut v = vec![];
    for _ in 0..n {
        let k = t.pick_str(KEYS).to_string();
        if toml && v.iter().any(|(x, _): &(String, String)| *x == k) {
            continue; // duplicate keys are a TOML syntax error
        }
        let val = gen_value(t, &k, toml);
        v.push((k, val));
    }
    v
}

impl Prop for C19Prop {
    fn id(&self) -> &'static str {
        "C19"
    }
    fn rule(&self) -> String {
        "Streams (proptest tapes): cfg = an effective configuration split arbitrarily between a pasfmt.toml placed 0-6 levels above the working directory (with decoy pasfmt.toml files further up that must be ignored), or given with --config-file (absolute or relative), and -C KEY=VALUE options (repeated keys: the last wins; quoted and unquoted values), over the documented value domains; invalid = unknown key (file or -C), nested key, ill-typed value, out-of-range value, unknown enum value, missing / directory --config-file, -C without '='. Probe source on which every option is observable (a long call, `if .. then begin`, a multi-line string, an indented block, non-ASCII text). Oracle: model E = defaults (+) nearest file | --config-file (+) -C options in order; the file written must be byte-identical to the one obtained when E is given entirely with -C in a directory without configuration; invalid specifications: exit non-zero, target file bytes and mtime untouched, nothing on stdout. Sensitivity: distinct E are required to give distinct probe outputs (measured). Non-trivial = file and command line both set an option, one is overridden, depth >= 1; distinct by hash of the scenario."
            .into()
    }
    fn assumptions(&self) -> Vec<String> {
        vec!["the scratch root has no pasfmt.toml in any ancestor (verified on the real file system at start, else exit 2)".into()]
    }
    fn streams(&self, tier: Tier) -> Vec<Stream> {
        let q = tier == Tier::Quick;
        vec![
            Stream::random("cfg", if q { 150 } else { 2000 }, 200),
            Stream::random("invalid", if q { 40 } else { 500 }, 200),
        ]
    }
    fn generate(&self, stream: &str, t: &mut Tape) -> Option<Case> {
        let mut scn = Scn::default();
        let has_file = !t.chance(1, 6);
        if has_file {
            scn.file_opts = gen_opts(t, true, 5);
            if t.chance(1, 4) {
                scn.explicit = Some((*t.pick(&["abs", "rel"])).to_string());
                scn.depth = None;
                scn.cwd_depth = t.below(3);
                // a discovered file must then be ignored
                if t.chance(1, 2) {
                    scn.decoys.push((0, gen_opts(t, true, 4)));
                }
            } else {
                let d = t.below(7);
                scn.depth = Some(d);
                scn.cwd_depth = d;
                let nd = t.below(3);
                for _ in 0..nd {
                    scn.decoys.push((1 + t.below(3), gen_opts(t, true, 4)));
                }
            }
        } else {
            scn.cwd_depth = t.below(4);
        }
        scn.cli_opts = gen_opts(t, false, 5);
        scn.target_below = t.chance(1, 4);
        if stream == "invalid" {
            scn.invalid = (*t.pick(&[
                "unknown-key-file", "unknown-key-cli", "nested-key", "bad-type-file", "bad-type-cli", "out-of-range",
                "bad-enum", "missing-config-file", "dir-config-file", "no-equals", "negative", "bad-enum-file", "non-utf8-file", "syntax-error-file",
                "case-key-cli", "case-key-file", "int-for-bool-cli",
            ]))
            .to_string();
        }
        let mut c = Case::text("cfg", String::new(), Cfg::default());
        c.extra = serde_json::to_value(scn).unwrap();
        Some(c)
    }
    fn hang_limit(&self, _case: &Case) -> Option<u64> {
        None
    }
    fn check(&self, case: &Case, ctx: &mut Ctx) -> Outcome {
        let Ok(mut scn) = serde_json::from_value::<Scn>(case.extra.clone()) else {
            return Outcome::Discard("no-scenario");
        };
        cli::check_no_config_above();
        let sc = Scratch::new();
        // directory chain: root/d1/d2/.../d<cwd_depth>; working directory is the deepest
        let mut dirs = vec![String::new()];
        let total_depth = scn.cwd_depth.max(scn.depth.unwrap_or(0)) + scn.decoys.iter().map(|d| d.0).max().unwrap_or(0);
        for i in 0..total_depth {
            let prev = dirs.last().unwrap().clone();
            dirs.push(format!("{prev}d{i}/"));
        }
        let cwd_rel = dirs[total_depth as usize].clone();
        std::fs::create_dir_all(sc.path(&cwd_rel)).expect("mkdir chain");
        let mut args: Vec<String> = vec![];
        let mut file_opts = scn.file_opts.clone();
        match scn.invalid.as_str() {
            "unknown-key-file" => file_opts.push(("wrap_colum".into(), "10".into())),
            // option names are case-sensitive: these are unknown keys
            "case-key-file" => file_opts.push(("Tab_Width".into(), "4".into())),
            "nested-key" => file_opts.push(("reconstruction.tab_width".into(), "3".into())),
            "bad-type-file" => file_opts.push(("unused".into(), "1".into())),
            "bad-enum-file" => {
                file_opts.retain(|(k, _)| k != "line_ending");
                file_opts.push(("line_ending".into(), "\"cr\"".into()))
            }
            _ => {}
        }
        if scn.invalid == "bad-type-file" {
            file_opts.pop();
            file_opts.retain(|(k, _)| k != "use_tabs");
            file_opts.push(("use_tabs".into(), "\"maybe\"".into()));
        }
        let needs_file = matches!(scn.invalid.as_str(), "unknown-key-file" | "case-key-file" | "nested-key" | "bad-type-file" | "bad-enum-file" | "non-utf8-file" | "syntax-error-file");
        if needs_file && scn.depth.is_none() && scn.explicit.is_none() {
            scn.depth = Some(0);
        }
        let mut effective = Cfg::default();
        if let Some(how) = &scn.explicit {
            sc.write("conf/my.toml", &toml_bytes(&file_opts, &scn.invalid));
            let p = if how == "abs" {
                sc.path("conf/my.toml").to_string_lossy().to_string()
            } else {
                format!("{}conf/my.toml", "../".repeat(total_depth as usize))
            };
            args.push(format!("--config-file={p}"));
            for (k, v) in &scn.file_opts {
                apply(&mut effective, k, v);
            }
            for (lvl, opts) in &scn.decoys {
                let idx = (total_depth - lvl.min(&total_depth)) as usize;
                sc.write(&format!("{}pasfmt.toml", dirs[idx]), toml_of(opts).as_bytes());
            }
        } else if let Some(d) = scn.depth {
            let idx = (total_depth - d) as usize;
            sc.write(&format!("{}pasfmt.toml", dirs[idx]), &toml_bytes(&file_opts, &scn.invalid));
            for (k, v) in &scn.file_opts {
                apply(&mut effective, k, v);
            }
            for (lvl, opts) in &scn.decoys {
                if idx >= *lvl as usize {
                    let j = idx - *lvl as usize;
                    if j != idx {
                        sc.write(&format!("{}pasfmt.toml", dirs[j]), toml_of(opts).as_bytes());
                    }
                }
            }
        }
        // an ill-typed value in the file that a -C option overrides never takes effect; whether it
        // must still be rejected is not stated, so such overrides are left out of invalid scenarios
        match scn.invalid.as_str() {
            "bad-type-file" => scn.cli_opts.retain(|(k, _)| k != "use_tabs"),
            "bad-enum-file" => scn.cli_opts.retain(|(k, _)| k != "line_ending"),
            _ => {}
        }
        for (k, v) in &scn.cli_opts {
            args.push(format!("-C{k}={v}"));
            apply(&mut effective, k, v);
        }
        match scn.invalid.as_str() {
            "unknown-key-cli" => args.push("-Cwrap_colum=10".into()),
            "case-key-cli" => args.push(
                ["-CWRAP_COLUMN=40", "-CTab_width=4", "-CUse_Tabs=true", "-CLine_ending=lf"][scn.cli_opts.len() % 4].into(),
            ),
            "bad-type-cli" => args.push("-Ctab_width=wide".into()),
            "int-for-bool-cli" => args.push(["-Cuse_tabs=2", "-Cformat_multiline_strings=-1", "-Cuse_tabs=255", "-Cbegin_style=0"][scn.cli_opts.len() % 4].into()),
            "out-of-range" => args.push("-Ctab_width=256".into()),
            "negative" => args.push("-Cwrap_column=-1".into()),
            "bad-enum" => args.push("-Cbegin_style=sometimes".into()),
            "missing-config-file" => args.push("--config-file=nowhere/none.toml".into()),
            "dir-config-file" => args.push("--config-file=.".into()),
            "no-equals" => args.push("-Cuse_tabs".into()),
            _ => {}
        }
        let below = if scn.target_below { "sub/dir/" } else { "" };
        if scn.target_below {
            // a configuration next to the file that must be ignored
            sc.write(&format!("{cwd_rel}sub/pasfmt.toml"), b"wrap_column = 33\nuse_tabs = true\ntab_width = 7\nbegin_style = \"always_wrap\"\nline_ending = \"crlf\"\n");
        }
        let target_rel = format!("{cwd_rel}{below}probe.pas");
        let target = sc.write(&target_rel, PROBE.as_bytes());
        let old = cli::age(&target);
        let mut run_args = args.clone();
        run_args.push(format!("{below}probe.pas"));
        let r = cli::run_pasfmt(&run_args, &sc.path(&cwd_rel), None, &[]);
        let now = std::fs::read(&target).unwrap_or_default();
        if !scn.invalid.is_empty() {
            if r.ok() || now != PROBE.as_bytes() || cli::mtime(&target) != Some(old) || !r.stdout.is_empty() {
                return Outcome::Fail(
                    Failure::new(
                        "invalid-accepted",
                        format!(
                            "invalid configuration ({}) : exit {:?}, target {} , {} bytes on stdout; args {:?}; stderr {:?}",
                            scn.invalid,
                            r.code,
                            if now == PROBE.as_bytes() && cli::mtime(&target) == Some(old) { "untouched" } else { "MODIFIED" },
                            r.stdout.len(),
                            run_args,
                            short(&r.stderr_text(), 200)
                        ),
                    )
                    .fact(format!("invalid:{}", scn.invalid)),
                );
            }
            ctx.class(&format!("invalid:{}", scn.invalid));
            return Outcome::Pass { nontrivial: true };
        }
        if !r.ok() {
            return Outcome::Fail(Failure::new(
                "valid-rejected",
                format!("a valid specification was rejected: exit {:?}; args {:?}; stderr {:?}", r.code, run_args, short(&r.stderr_text(), 300)),
            ));
        }
        // canonical specification of the effective configuration, in a directory without config
        let canon = Scratch::new();
        let ct = canon.write("probe.pas", PROBE.as_bytes());
        let mut cargs = effective.to_cli();
        cargs.push("probe.pas".into());
        let rc = cli::run_pasfmt(&cargs, &canon.dir, None, &[]);
        if !rc.ok() {
            eprintln!("canonical run failed: {:?}", rc.stderr_text());
            std::process::exit(2);
        }
        let want = std::fs::read(&ct).unwrap_or_default();
        if now != want {
            // which option differs? compare with the library under single-option variations
            return Outcome::Fail(
                Failure::new(
                    "precedence",
                    format!(
                        "output differs from the canonical specification of the effective configuration {:?}: depth {:?}, explicit {:?}, file options {:?}, decoys {:?}, args {:?}",
                        effective.to_toml().replace('\n', "; "),
                        scn.depth,
                        scn.explicit,
                        scn.file_opts,
                        scn.decoys,
                        args
                    ),
                )
                .fact(if scn.explicit.is_some() { "explicit-file" } else { "discovered-file" })
                .fact(format!("depth:{}", scn.depth.map_or("none".to_string(), |d| d.to_string()))),
            );
        }
        // also against the library model
        let lib = format_with(&effective, PROBE);
        if want != lib.as_bytes() {
            return Outcome::Fail(Failure::new("canonical-vs-library", "the canonical run differs from the library result for the same settings".into()));
        }
        ctx.class(&format!("depth:{}", scn.depth.map_or("none".to_string(), |d| d.to_string())));
        ctx.class_if(scn.explicit.is_some(), "explicit-config-file");
        ctx.class_if(scn.target_below, "target-in-subdirectory-with-own-config");
        ctx.class_if(!scn.decoys.is_empty(), "has-decoy");
        let file_keys: Vec<&String> = scn.file_opts.iter().map(|x| &x.0).collect();
        let overridden = scn.cli_opts.iter().any(|(k, _)| file_keys.contains(&k));
        Outcome::Pass {
            nontrivial: !scn.file_opts.is_empty() && !scn.cli_opts.is_empty() && overridden && scn.depth.unwrap_or(1) >= 1,
        }
    }
}
