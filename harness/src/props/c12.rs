//! C12 — multi-line string literals keep their value (DESIGN §5 C12).

use crate::engine::*;
use crate::gen::layout::{self, CommentPolicy};
use crate::gen::mlstr;
use crate::gen::prog::{self, PTok, Prog};
use crate::model::nonblank::is_blank;
use crate::model::refscan::{self, Kind};
use crate::props::wf;

pub struct C12Prop;
pub static C12: C12Prop = C12Prop;

#[derive(Debug, PartialEq, Eq, Clone)]
pub struct Parsed {
    pub quotes: usize,
    /// interior lines as (text, terminator)
    pub lines: Vec<(String, String)>,
    /// blanks before the closing quotes
    pub close_indent: String,
    /// non-blank text before the closing quotes (makes the literal invalid)
    pub junk_before_close: bool,
}

/// My own literal parser: opening run, interior lines split at CR/LF/CRLF, closing line.
pub fn parse_literal(lit: &str) -> Option<Parsed> {
    let q = lit.bytes().take_while(|c| *c == b'\'').count();
    if q < 3 || q % 2 == 0 || lit.len() < 2 * q || !lit.ends_with(&"'".repeat(q)) {
        return None;
    }
    let inner = &lit[q..lit.len() - q];
    let b = inner.as_bytes();
    let mut segs: Vec<(String, String)> = vec![];
    let mut start = 0;
    let mut i = 0;
    while i < b.len() {
        if b[i] == b'\r' || b[i] == b'\n' {
            let t = if b[i] == b'\r' && b.get(i + 1) == Some(&b'\n') { "\r\n" } else if b[i] == b'\r' { "\r" } else { "\n" };
            segs.push((inner[start..i].to_string(), t.to_string()));
            i += t.len();
            start = i;
        } else {
            i += 1;
        }
    }
    let last = &inner[start..];
    if segs.is_empty() {
        return None;
    }
    // segs[0] is the rest of the opening line (must be empty for a multi-line literal)
    if !segs[0].0.is_empty() {
        return None;
    }
    let junk = !last.chars().all(is_blank);
    Some(Parsed {
        quotes: q,
        lines: segs[1..].to_vec(),
        close_indent: last.to_string(),
        junk_before_close: junk,
    })
}

#[derive(Debug, PartialEq, Eq, Clone, Copy)]
pub enum Class {
    Valid,
    Invalid,
    Ambiguous,
}

pub fn classify(p: &Parsed) -> Class {
    if p.junk_before_close {
        return Class::Invalid;
    }
    let ind = p.close_indent.as_str();
    let mut ambiguous = false;
    for (l, _) in &p.lines {
        if l.starts_with(ind) || ind.starts_with(l.as_str()) {
            continue;
        }
        if l.chars().all(is_blank) {
            ambiguous = true;
        } else {
            return Class::Invalid;
        }
    }
    if ambiguous {
        Class::Ambiguous
    } else {
        Class::Valid
    }
}

/// The value: interior lines with the closing indentation removed (blank-prefix lines are empty).
pub fn value(p: &Parsed) -> Vec<String> {
    let ind = p.close_indent.as_str();
    p.lines
        .iter()
        .map(|(l, _)| match l.strip_prefix(ind) {
            Some(r) => r.to_string(),
            None => String::new(),
        })
        .collect()
}

/// Compare one literal of the input with the corresponding token of the output.
pub fn check_literal(lit_in: &str, lit_out: &str, out: &str, out_start: usize, cfg: &Cfg) -> Result<Class, Failure> {
    let Some(pi) = parse_literal(lit_in) else {
        return if lit_in == lit_out {
            Ok(Class::Invalid)
        } else {
            Err(Failure::new("verbatim", "a literal the harness cannot parse was changed".into()))
        };
    };
    let class = classify(&pi);
    let byte_equal = lit_in == lit_out;
    if !cfg.format_multiline_strings || class == Class::Invalid {
        return if byte_equal {
            Ok(class)
        } else {
            Err(Failure::new(
                "verbatim",
                format!(
                    "literal must be reproduced byte for byte ({}) but was changed: {:?} -> {:?}",
                    if cfg.format_multiline_strings { "it violates the indentation rule" } else { "format_multiline_strings=false" },
                    short(lit_in, 80),
                    short(lit_out, 80)
                ),
            )
            .fact(if cfg.format_multiline_strings { "invalid-literal" } else { "fmt-off" }))
        };
    }
    let Some(po) = parse_literal(lit_out) else {
        return Err(Failure::new("value", format!("the output literal no longer parses: {:?}", short(lit_out, 80))));
    };
    if class == Class::Ambiguous {
        // demand less: either untouched, or the unambiguous lines keep their value
        if byte_equal {
            return Ok(class);
        }
        let (vi, vo) = (value(&pi), value(&po));
        let ok = vi.len() == vo.len()
            && pi.lines.iter().zip(vi.iter().zip(&vo)).all(|((l, _), (a, b))| {
                let amb = !(l.starts_with(pi.close_indent.as_str()) || pi.close_indent.starts_with(l.as_str()));
                amb || a == b
            });
        return if ok { Ok(class) } else { Err(Failure::new("value", "ambiguous literal: a regular line changed its value".into()).fact("ambiguous")) };
    }
    // valid literal, format_multiline_strings = true
    let (vi, vo) = (value(&pi), value(&po));
    if vi != vo || pi.quotes != po.quotes {
        let k = vi.iter().zip(&vo).position(|(a, b)| a != b);
        return Err(Failure::new(
            "value",
            format!(
                "the literal's value changed ({} -> {} lines; first differing line {:?}): {:?} vs {:?}",
                vi.len(),
                vo.len(),
                k,
                k.map(|k| vi[k].clone()),
                k.map(|k| vo[k].clone())
            ),
        ));
    }
    // terminators inside are the configured ending
    let nl = cfg.nl();
    if let Some((_, t)) = po.lines.iter().find(|(_, t)| t != nl) {
        let first_is_ok = lit_out[po.quotes..].starts_with(nl);
        return Err(Failure::new(
            "terminator",
            format!("interior line terminator {:?} is not the configured {:?} (opening line ok: {first_is_ok})", t, nl),
        )
        .fact(if byte_equal { "literal-untouched" } else { "literal-rewritten" }));
    }
    if !lit_out[po.quotes..].starts_with(nl) {
        return Err(Failure::new("terminator", "terminator after the opening quotes is not the configured one".into())
            .fact(if byte_equal { "literal-untouched" } else { "literal-rewritten" }));
    }
    // indentation: closing line == indentation of the opening quotes' line == prefix of every
    // non-empty interior line
    let line_start = out[..out_start].rfind('\n').map(|p| p + 1).unwrap_or(0);
    let open_line = &out[line_start..out_start];
    let open_indent: String = open_line.chars().take_while(|c| is_blank(*c)).collect();
    if po.close_indent != open_indent {
        return Err(Failure::new(
            "indentation",
            format!(
                "closing quotes are indented {:?}, the opening quotes' line {:?}",
                po.close_indent, open_indent
            ),
        )
        .fact(if byte_equal { "literal-untouched" } else { "literal-rewritten" }));
    }
    for (l, _) in &po.lines {
        if !l.is_empty() && !l.starts_with(open_indent.as_str()) {
            return Err(Failure::new(
                "indentation",
                format!("interior line {:?} is not indented like the opening quotes' line ({:?})", short(l, 40), open_indent),
            ));
        }
    }
    Ok(class)
}

/// A small program around generated literals: literals in several expression positions.
fn build_prog(t: &mut Tape) -> (Prog, Vec<&'static str>) {
    let mut p = Prog::default();
    let mut classes = vec![];
    let push = |p: &mut Prog, text: &str, kind: Kind, line_start: bool, depth: u16| {
        p.toks.push(PTok { text: text.to_string(), kind, line_start, depth, in_anon: false, inserted: false, fixed_gap: None });
    };
    let n = 1 + t.below(3);
    let wrap_in_begin = t.chance(1, 2);
    let d0: u16 = if wrap_in_begin { 1 } else { 0 };
    if wrap_in_begin {
        if t.chance(1, 2) {
            push(&mut p, "procedure", Kind::Keyword, true, 0);
            push(&mut p, "Foo", Kind::Ident, false, 0);
            push(&mut p, ";", Kind::Op, false, 0);
        }
        push(&mut p, "begin", Kind::Keyword, true, 0);
    }
    for _ in 0..n {
        let lit = mlstr::gen_literal(t);
        classes.push(lit.class);
        match t.below(14) {
            8 if !wrap_in_begin => {
                // argument of a custom attribute on a declaration
                push(&mut p, "[", Kind::Op, true, 0);
                push(&mut p, "Description", Kind::Ident, false, 0);
                push(&mut p, "(", Kind::Op, false, 0);
                if t.chance(1, 2) {
                    push(&mut p, "'x'", Kind::Text, false, 0);
                    push(&mut p, ",", Kind::Op, false, 0);
                }
                push(&mut p, &lit.text, Kind::TextMulti, false, 0);
                push(&mut p, ")", Kind::Op, false, 0);
                push(&mut p, "]", Kind::Op, false, 0);
                push(&mut p, "procedure", Kind::Keyword, true, 0);
                push(&mut p, "Bar", Kind::Ident, false, 0);
            }
            9 if !wrap_in_begin => {
                // default value of a parameter
                push(&mut p, "procedure", Kind::Keyword, true, 0);
                push(&mut p, "Baz", Kind::Ident, false, 0);
                push(&mut p, "(", Kind::Op, false, 0);
                push(&mut p, "const", Kind::Keyword, false, 0);
                push(&mut p, "S", Kind::Ident, false, 0);
                push(&mut p, ":", Kind::Op, false, 0);
                push(&mut p, "string", Kind::Keyword, false, 0);
                push(&mut p, "=", Kind::Op, false, 0);
                push(&mut p, &lit.text, Kind::TextMulti, false, 0);
                push(&mut p, ")", Kind::Op, false, 0);
            }
            10 if !wrap_in_begin => {
                // elements of a typed array constant
                let l2 = mlstr::gen_literal(t);
                classes.push(l2.class);
                push(&mut p, "const", Kind::Keyword, true, 0);
                push(&mut p, "A", Kind::Ident, true, 1);
                push(&mut p, ":", Kind::Op, false, 1);
                push(&mut p, "array", Kind::Keyword, false, 1);
                push(&mut p, "[", Kind::Op, false, 1);
                push(&mut p, "0", Kind::Number, false, 1);
                push(&mut p, "..", Kind::Op, false, 1);
                push(&mut p, "1", Kind::Number, false, 1);
                push(&mut p, "]", Kind::Op, false, 1);
                push(&mut p, "of", Kind::Keyword, false, 1);
                push(&mut p, "string", Kind::Keyword, false, 1);
                push(&mut p, "=", Kind::Op, false, 1);
                push(&mut p, "(", Kind::Op, false, 1);
                push(&mut p, &lit.text, Kind::TextMulti, false, 1);
                push(&mut p, ",", Kind::Op, false, 1);
                push(&mut p, &l2.text, Kind::TextMulti, false, 1);
                push(&mut p, ")", Kind::Op, false, 1);
            }
            8 | 11 => {
                // raise with a constructor call, literal plus an open array argument
                push(&mut p, "raise", Kind::Keyword, true, d0);
                push(&mut p, "EFoo", Kind::Ident, false, d0);
                push(&mut p, ".", Kind::Op, false, d0);
                push(&mut p, "CreateFmt", Kind::Ident, false, d0);
                push(&mut p, "(", Kind::Op, false, d0);
                push(&mut p, &lit.text, Kind::TextMulti, false, d0);
                push(&mut p, ",", Kind::Op, false, d0);
                push(&mut p, "[", Kind::Op, false, d0);
                push(&mut p, "X", Kind::Ident, false, d0);
                push(&mut p, ",", Kind::Op, false, d0);
                push(&mut p, "Y", Kind::Ident, false, d0);
                push(&mut p, "]", Kind::Op, false, d0);
                push(&mut p, ")", Kind::Op, false, d0);
            }
            9 | 12 => {
                // case selector and a statement in a case arm
                let l2 = mlstr::gen_literal(t);
                classes.push(l2.class);
                push(&mut p, "case", Kind::Keyword, true, d0);
                push(&mut p, "IndexStr", Kind::Ident, false, d0);
                push(&mut p, "(", Kind::Op, false, d0);
                push(&mut p, "S", Kind::Ident, false, d0);
                push(&mut p, ",", Kind::Op, false, d0);
                push(&mut p, "[", Kind::Op, false, d0);
                push(&mut p, &lit.text, Kind::TextMulti, false, d0);
                push(&mut p, "]", Kind::Op, false, d0);
                push(&mut p, ")", Kind::Op, false, d0);
                push(&mut p, "of", Kind::Keyword, false, d0);
                push(&mut p, "0", Kind::Number, true, d0 + 1);
                push(&mut p, ":", Kind::Op, false, d0 + 1);
                push(&mut p, "T", Kind::Ident, false, d0 + 1);
                push(&mut p, ":=", Kind::Op, false, d0 + 1);
                push(&mut p, &l2.text, Kind::TextMulti, false, d0 + 1);
                push(&mut p, ";", Kind::Op, false, d0 + 1);
                push(&mut p, "end", Kind::Keyword, true, d0);
            }
            4 if t.chance(1, 3) => {
                // word operators after the closing quotes of a second literal
                let lit2 = mlstr::gen_literal(t);
                classes.push(lit2.class);
                push(&mut p, "N", Kind::Ident, true, d0);
                push(&mut p, ":=", Kind::Op, false, d0);
                push(&mut p, &lit.text, Kind::TextMulti, false, d0);
                push(&mut p, ".", Kind::Op, false, d0);
                push(&mut p, "Len", Kind::Ident, false, d0);
                push(&mut p, "+", Kind::Op, false, d0);
                push(&mut p, &lit2.text, Kind::TextMulti, false, d0);
                push(&mut p, ".", Kind::Op, false, d0);
                push(&mut p, "Lenn", Kind::Ident, false, d0);
                for _ in 0..1 + t.below(3) {
                    let w = *t.pick(&["div", "mod", "and", "or", "xor", "shl"]);
                    push(&mut p, w, Kind::Keyword, false, d0);
                    push(&mut p, *t.pick(&["Cc", "Ddd", "E"]), Kind::Ident, false, d0);
                }
            }
            6 if t.chance(1, 3) => {
                // an anonymous routine as argument of a call on the literal
                push(&mut p, &lit.text, Kind::TextMulti, true, d0);
                push(&mut p, ".", Kind::Op, false, d0);
                push(&mut p, "Apply", Kind::Ident, false, d0);
                push(&mut p, "(", Kind::Op, false, d0);
                push(&mut p, "procedure", Kind::Keyword, false, d0);
                push(&mut p, "begin", Kind::Keyword, true, d0);
                push(&mut p, "Bar", Kind::Ident, true, d0 + 1);
                push(&mut p, "(", Kind::Op, false, d0 + 1);
                push(&mut p, "Arg1", Kind::Ident, false, d0 + 1);
                push(&mut p, ")", Kind::Op, false, d0 + 1);
                push(&mut p, ";", Kind::Op, false, d0 + 1);
                push(&mut p, "end", Kind::Keyword, true, d0);
                push(&mut p, ")", Kind::Op, false, d0);
            }
            2 if t.chance(1, 3) => {
                // literal first, a second literal as call argument followed by word operators
                let lit2 = mlstr::gen_literal(t);
                classes.push(lit2.class);
                push(&mut p, &lit.text, Kind::TextMulti, true, d0);
                push(&mut p, ".", Kind::Op, false, d0);
                push(&mut p, "Foo", Kind::Ident, false, d0);
                push(&mut p, "(", Kind::Op, false, d0);
                push(&mut p, "Aa", Kind::Ident, false, d0);
                push(&mut p, ",", Kind::Op, false, d0);
                push(&mut p, &lit2.text, Kind::TextMulti, false, d0);
                push(&mut p, ".", Kind::Op, false, d0);
                push(&mut p, "Lenn", Kind::Ident, false, d0);
                push(&mut p, *t.pick(&["div", "mod", "and", "shl"]), Kind::Keyword, false, d0);
                push(&mut p, "Cc", Kind::Ident, false, d0);
                push(&mut p, ")", Kind::Op, false, d0);
            }
            3 if t.chance(1, 3) => {
                // the statement starts with the literal
                push(&mut p, &lit.text, Kind::TextMulti, true, d0);
                push(&mut p, ".", Kind::Op, false, d0);
                push(&mut p, "Foo", Kind::Ident, false, d0);
                push(&mut p, "(", Kind::Op, false, d0);
                push(&mut p, "Aaa", Kind::Ident, false, d0);
                if t.chance(1, 2) {
                    push(&mut p, ",", Kind::Op, false, d0);
                    push(&mut p, "Bbbbbb", Kind::Ident, false, d0);
                }
                push(&mut p, ")", Kind::Op, false, d0);
            }
            10 | 13 => {
                // for-in over a set of literals, and a while condition
                push(&mut p, "for", Kind::Keyword, true, d0);
                push(&mut p, "S", Kind::Ident, false, d0);
                push(&mut p, "in", Kind::Keyword, false, d0);
                push(&mut p, "[", Kind::Op, false, d0);
                push(&mut p, "'a'", Kind::Text, false, d0);
                push(&mut p, ",", Kind::Op, false, d0);
                push(&mut p, &lit.text, Kind::TextMulti, false, d0);
                push(&mut p, "]", Kind::Op, false, d0);
                push(&mut p, "do", Kind::Keyword, false, d0);
                push(&mut p, "Bar", Kind::Ident, true, d0 + 1);
            }
            7 => {
                // three literals chained through method-call argument lists: S := L1.M(L2.N(X, L3.K()));
                let l2 = mlstr::gen_literal(t);
                let l3 = mlstr::gen_literal(t);
                classes.push(l2.class);
                classes.push(l3.class);
                push(&mut p, "S", Kind::Ident, true, d0);
                push(&mut p, ":=", Kind::Op, false, d0);
                push(&mut p, &lit.text, Kind::TextMulti, false, d0);
                push(&mut p, ".", Kind::Op, false, d0);
                push(&mut p, "Replace", Kind::Ident, false, d0);
                push(&mut p, "(", Kind::Op, false, d0);
                push(&mut p, &l2.text, Kind::TextMulti, false, d0);
                push(&mut p, ".", Kind::Op, false, d0);
                push(&mut p, "Trim", Kind::Ident, false, d0);
                push(&mut p, "(", Kind::Op, false, d0);
                push(&mut p, "X", Kind::Ident, false, d0);
                push(&mut p, ",", Kind::Op, false, d0);
                push(&mut p, &l3.text, Kind::TextMulti, false, d0);
                push(&mut p, ".", Kind::Op, false, d0);
                push(&mut p, "Fmt", Kind::Ident, false, d0);
                push(&mut p, "(", Kind::Op, false, d0);
                push(&mut p, ")", Kind::Op, false, d0);
                push(&mut p, ")", Kind::Op, false, d0);
                push(&mut p, ")", Kind::Op, false, d0);
            }
            0 => {
                push(&mut p, "X", Kind::Ident, true, d0);
                push(&mut p, ":=", Kind::Op, false, d0);
                push(&mut p, &lit.text, Kind::TextMulti, false, d0);
            }
            1 => {
                push(&mut p, "Foo", Kind::Ident, true, d0);
                push(&mut p, "(", Kind::Op, false, d0);
                push(&mut p, "A", Kind::Ident, false, d0);
                push(&mut p, ",", Kind::Op, false, d0);
                push(&mut p, &lit.text, Kind::TextMulti, false, d0);
                push(&mut p, ",", Kind::Op, false, d0);
                push(&mut p, "B", Kind::Ident, false, d0);
                push(&mut p, ")", Kind::Op, false, d0);
            }
            2 => {
                push(&mut p, "S", Kind::Ident, true, d0);
                push(&mut p, ":=", Kind::Op, false, d0);
                push(&mut p, &lit.text, Kind::TextMulti, false, d0);
                push(&mut p, ".", Kind::Op, false, d0);
                push(&mut p, "Replace", Kind::Ident, false, d0);
                push(&mut p, "(", Kind::Op, false, d0);
                push(&mut p, "'a'", Kind::Text, false, d0);
                push(&mut p, ",", Kind::Op, false, d0);
                push(&mut p, "'b'", Kind::Text, false, d0);
                push(&mut p, ")", Kind::Op, false, d0);
            }
            3 => {
                push(&mut p, "if", Kind::Keyword, true, d0);
                push(&mut p, "S", Kind::Ident, false, d0);
                push(&mut p, "=", Kind::Op, false, d0);
                push(&mut p, &lit.text, Kind::TextMulti, false, d0);
                push(&mut p, "then", Kind::Keyword, false, d0);
                push(&mut p, "Bar", Kind::Ident, true, d0 + 1);
            }
            4 => {
                push(&mut p, "S", Kind::Ident, true, d0);
                push(&mut p, ":=", Kind::Op, false, d0);
                push(&mut p, "Prefix", Kind::Ident, false, d0);
                push(&mut p, "+", Kind::Op, false, d0);
                push(&mut p, &lit.text, Kind::TextMulti, false, d0);
                push(&mut p, "+", Kind::Op, false, d0);
                let lit2 = mlstr::gen_literal(t);
                classes.push(lit2.class);
                push(&mut p, &lit2.text, Kind::TextMulti, false, d0);
            }
            5 if !wrap_in_begin => {
                push(&mut p, "const", Kind::Keyword, true, 0);
                push(&mut p, "C", Kind::Ident, true, 1);
                push(&mut p, "=", Kind::Op, false, 1);
                push(&mut p, &lit.text, Kind::TextMulti, false, 1);
            }
            _ => {
                push(&mut p, "Run", Kind::Ident, true, d0);
                push(&mut p, "(", Kind::Op, false, d0);
                push(&mut p, "procedure", Kind::Keyword, false, d0);
                push(&mut p, "begin", Kind::Keyword, true, d0);
                push(&mut p, "Log", Kind::Ident, true, d0 + 1);
                push(&mut p, "(", Kind::Op, false, d0 + 1);
                push(&mut p, &lit.text, Kind::TextMulti, false, d0 + 1);
                push(&mut p, ")", Kind::Op, false, d0 + 1);
                push(&mut p, ";", Kind::Op, false, d0 + 1);
                push(&mut p, "end", Kind::Keyword, true, d0);
                push(&mut p, ")", Kind::Op, false, d0);
            }
        }
        push(&mut p, ";", Kind::Op, false, d0);
    }
    if wrap_in_begin {
        push(&mut p, "end", Kind::Keyword, true, 0);
        push(&mut p, ";", Kind::Op, false, 0);
    }
    p.tags.insert("mlstr");
    (p, classes)
}

impl Prop for C12Prop {
    fn id(&self) -> &'static str {
        "C12"
    }
    fn rule(&self) -> String {
        "Streams (proptest tapes): lits = generated multi-line literals (3/5/7/9/11/13/21 quotes; LF / CR / CRLF / mixed interior endings; closing-line indentation of spaces, tabs, mixed, U+3000, VT, FF; empty lines, strict-prefix lines, over-indented and whitespace-only lines, trailing blanks, ''' inside 5/7-quote literals; invalid variants with a mis-indented line or text before the closing quotes; ambiguous variants with a whitespace-only line that is not a prefix) placed as the first token of a statement, assignment right-hand side, call argument, method-call receiver, comparison operand, concatenation operand, constant, typed array constant, attribute argument, default parameter value, raise / case selector / case arm / for-in operand, and inside an anonymous routine, in generated layouts x generated configuration (both values of format_multiline_strings); mlprog = grammar-derived programs with valid literals. Oracle (own literal parser on the input token and the corresponding output token): valid literal and format_multiline_strings: value lines equal incl. trailing blanks, interior terminators are the configured ending, closing indentation == indentation of the opening quotes' line == prefix of every non-empty interior line; invalid literals and all literals under format_multiline_strings=false: byte-equal; ambiguous literals: untouched or regular lines keep their value. Non-trivial = the literal's bytes change; distinct by hash of (input, configuration)."
            .into()
    }
    fn assumptions(&self) -> Vec<String> {
        vec![
            "'(or are blank)' is read as: empty or a strict prefix of the closing indentation; a whitespace-only line that is not a prefix is treated as ambiguous and only value preservation is asserted".into(),
            "input and output tokens are matched by index after checking that both scan to the same kinds".into(),
        ]
    }
    fn streams(&self, tier: Tier) -> Vec<Stream> {
        let q = tier == Tier::Quick;
        vec![
            Stream::random("lits", if q { 20000 } else { 200000 }, 300),
            Stream::random("mlprog", if q { 3000 } else { 30000 }, 700),
        ]
    }
    fn generate(&self, stream: &str, t: &mut Tape) -> Option<Case> {
        let cfg = Cfg::gen_unsaturated(t);
        match stream {
            "lits" => {
                let (p, classes) = build_prog(t);
                let style = *t.pick(&[layout::Style::Pretty, layout::Style::Wild, layout::Style::Compact, layout::Style::OneSpace]);
                let p = layout::insert_comments(&p, t, CommentPolicy::LineEdges, 20);
                let mut gaps = layout::gen_layout(&p, t, style);
                layout::own_line_fixup(&p, &mut gaps);
                let input = layout::render(&p, &gaps);
                if !wf::scans_to(&input, &p) {
                    return None;
                }
                let w = wf::Wf { prog: p, gaps, input, style };
                let mut c = wf::case_of(&w, cfg, "lits");
                for cl in classes {
                    c.tags.push(format!("lit:{cl}"));
                }
                Some(c)
            }
            _ => {
                let opts = prog::Opts { mlstr: true, ..Default::default() };
                let w = wf::build(t, 60, opts, None, None)?;
                Some(wf::case_of(&w, cfg, "mlprog"))
            }
        }
    }
    fn check(&self, case: &Case, ctx: &mut Ctx) -> Outcome {
        let x = &case.input;
        let out = format_with(&case.cfg, x);
        let logf = logcap::facts();
        let ti = refscan::scan(x);
        let to = refscan::scan(&out);
        if ti.len() != to.len() || ti.iter().zip(&to).any(|(a, b)| a.kind != b.kind) {
            // C02's business; without the correspondence nothing can be asserted here
            return Outcome::Discard("output-scans-to-different-tokens");
        }
        let mut changed = false;
        let mut n_lit = 0;
        let n_multi = ti.iter().filter(|t| t.kind == Kind::TextMulti).count();
        for (a, b) in ti.iter().zip(&to) {
            if a.kind != Kind::TextMulti {
                continue;
            }
            n_lit += 1;
            let (li, lo) = (a.text(x), b.text(&out));
            match check_literal(li, lo, &out, b.start, &case.cfg) {
                Err(f) => {
                    let cr_only = li.contains('\r') && !li.contains('\n');
                    let mut f = f.facts(&logf);
                    if cr_only {
                        f = f.fact("literal-cr-only");
                    }
                    if li.contains('\r') {
                        f = f.fact("literal-has-cr");
                    }
                    f = f.fact(if case.cfg.wrap_column <= 30 { "wrap<=30" } else { "wrap>30" });
                    f = f.fact(if n_multi >= 3 { "literals>=3" } else { "literals<3" });
                    return Outcome::Fail(f);
                }
                Ok(cl) => {
                    ctx.class(match cl {
                        Class::Valid => "literal:valid",
                        Class::Invalid => "literal:invalid",
                        Class::Ambiguous => "literal:ambiguous",
                    });
                    if li != lo {
                        changed = true;
                    }
                }
            }
        }
        if n_lit == 0 {
            return Outcome::Discard("no-literal");
        }
        ctx.class_if(!case.cfg.format_multiline_strings, "format_multiline_strings=false");
        Outcome::Pass { nontrivial: changed }
    }
}
