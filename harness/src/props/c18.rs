//! C18 — batch formatting equals formatting each file alone, under any schedule (DESIGN §5 C18).

use serde::{Deserialize, Serialize};

use crate::engine::cli::{self, Scratch};
use crate::engine::*;
use crate::props::c17;

pub struct C18Prop;
pub static C18: C18Prop = C18Prop;

#[derive(Serialize, Deserialize, Clone, Debug)]
pub struct FileSpec {
    pub name: String,
    /// index of the text in the scenario's text pool, repeat count
    pub text: String,
    /// "utf8", "utf8bom", "utf16le", "utf16be"
    pub enc: String,
    /// "good", "badutf8", "missing", "badutf16"
    pub kind: String,
    /// in the batch the file is a symbolic link to a regular file outside the batch directory
    #[serde(default)]
    pub link: bool,
}

#[derive(Serialize, Deserialize, Clone, Debug)]
pub struct Scn {
    pub files: Vec<FileSpec>,
    pub threads: u32,
    pub jitter: String,
    /// "files" or "stdout"
    pub mode: String,
    pub reverse_order: bool,
    /// the batch is given as one directory argument instead of a list of files
    #[serde(default)]
    pub via_dir: bool,
}

fn bytes_of(f: &FileSpec) -> Vec<u8> {
    match (f.kind.as_str(), f.enc.as_str()) {
        ("badutf8", _) => {
            let mut v = f.text.as_bytes().to_vec();
            // multi-byte characters in front of the malformed bytes, at both alignments
            v.extend_from_slice("// \u{e9}\u{e9}\u{e9}\u{e9}\u{e9}\u{e9}\u{e9}\u{e9}\u{e9}\u{e9}\u{e9}\u{e9}\u{e9}\u{e9}\u{e9}\u{e9}\u{e9}\u{e9}\u{e9}\u{e9}".as_bytes());
            if f.name.bytes().map(|b| b as usize).sum::<usize>() % 2 == 1 {
                v.push(b'x');
            }
            v.extend_from_slice(&[0xC3, 0x28, b'\n']);
            v
        }
        ("badutf16", _) => {
            let mut v = vec![0xFF, 0xFE];
            v.extend(c17::utf16(&f.text, true));
            v.extend_from_slice(&[0x00, 0xD8, 0x61]); // unpaired surrogate + odd length
            v
        }
        (_, "utf8bom") => {
            let mut v = vec![0xEF, 0xBB, 0xBF];
            v.extend_from_slice(f.text.as_bytes());
            v
        }
        (_, "utf16le") => {
            let mut v = vec![0xFF, 0xFE];
            v.extend(c17::utf16(&f.text, true));
            v
        }
        (_, "utf16be") => {
            let mut v = vec![0xFE, 0xFF];
            v.extend(c17::utf16(&f.text, false));
            v
        }
        _ => f.text.as_bytes().to_vec(),
    }
}

impl Prop for C18Prop {
    fn id(&self) -> &'static str {
        "C18"
    }
    fn rule(&self) -> String {
        "Streams (proptest tapes): batch = multisets of 2-60 files (repository seed programs repeated 1-300 times: 0 B .. ~300 kB, already formatted or not, duplicates, UTF-8 with and without BOM, UTF-16LE/BE with BOM) x RAYON_NUM_THREADS in {1,2,3,4,8,16,32} x path order x seeded per-file jitter (hook H2) x failing subsets (invalid UTF-8, malformed UTF-16, missing path) x path form {list of files, one directory argument} x some files being symbolic links to regular files outside the directory x mode {files, stdout} x generated configuration. Oracle: every good file's bytes after one batch invocation equal the bytes produced by a separate single-file invocation on a copy (which in turn must equal the library model); failing files are untouched and make the exit status non-zero, which it is only then; in stdout mode the batch output is a sequence of complete per-file records, each identical to the record of the file formatted alone. Non-trivial = at least 3 files of different lengths handled by fewer threads than files, or a failing file among good ones; distinct by hash of the scenario."
            .into()
    }
    fn assumptions(&self) -> Vec<String> {
        vec!["schedules are sampled (thread count, order, jitter), not enumerated; with one thread every file passes through the same reused buffer in a known order".into()]
    }
    fn streams(&self, tier: Tier) -> Vec<Stream> {
        let q = tier == Tier::Quick;
        vec![
            Stream::random("batch", if q { 12 } else { 150 }, 400),
            // many large records written to stdout by many threads (torn-record races)
            Stream::random("stdoutrace", if q { 2 } else { 20 }, 64),
        ]
    }
    fn generate(&self, stream: &str, t: &mut Tape) -> Option<Case> {
        if stream == "stdoutrace" {
            let cfg = Cfg { wrap_column: 120, ..Cfg::gen_unsaturated(t) };
            let all = crate::gen::seeds::texts();
            let n = 60 + t.below(60);
            let mut files = vec![];
            for i in 0..n {
                let unit = &all[t.below(all.len() as u32) as usize].1;
                let reps = (20_000 / unit.len().max(20)).max(2) * (1 + t.below(3) as usize);
                let mut text = String::new();
                for _ in 0..reps {
                    text.push_str(unit);
                    text.push_str("\n\n");
                }
                files.push(FileSpec { name: format!("r{i:03}.pas"), text, enc: "utf8".into(), kind: "good".into(), link: false });
            }
            let scn = Scn { files, threads: *t.pick(&[16, 8, 32, 4]), jitter: format!("j{}", t.below(1000)), mode: "stdout".into(), reverse_order: t.chance(1, 2), via_dir: false };
            let mut c = Case::text("stdoutrace", String::new(), cfg);
            c.extra = serde_json::to_value(scn).unwrap();
            return Some(c);
        }
        let cfg = Cfg::gen_unsaturated(t);
        let all = crate::gen::seeds::texts();
        let via_dir = t.chance(1, 3);
        let many = t.chance(1, 4);
        let n = 2 + t.below(if many { 59 } else { 14 });
        let mut files = vec![];
        for i in 0..n {
            let unit = &all[t.below(all.len() as u32) as usize].1;
            let reps = match t.below(6) {
                0 => 0,
                1 => 1,
                2 => 2 + t.below(5),
                3 => 10 + t.below(40),
                4 => 50 + t.below(250),
                _ => 1,
            } as usize;
            let mut text = String::new();
            for _ in 0..reps {
                text.push_str(unit);
                text.push_str("\n\n");
            }
            if t.chance(1, 4) {
                text = format_with(&cfg, &text);
            }
            let enc = (*t.pick(&["utf8", "utf8", "utf8", "utf8bom", "utf16le", "utf16be"])).to_string();
            let kind = match t.below(14) {
                0 => "badutf8",
                1 => "missing",
                2 => "badutf16",
                _ => "good",
            }
            .to_string();
            // some names differ from another file's only in letter case
            let name = if i > 0 && t.chance(1, 8) {
                let prev: &FileSpec = &files[t.below(i) as usize];
                let flipped: String = prev.name.chars().map(|c| if c.is_ascii_lowercase() { c.to_ascii_uppercase() } else { c.to_ascii_lowercase() }).collect();
                if files.iter().any(|f: &FileSpec| f.name == flipped) { format!("f{i:03}.pas") } else { flipped }
            } else {
                format!("f{i:03}.{}", *t.pick(&["pas", "dpr", "pas"]))
            };
            // a directory cannot name a file that is not there
            let kind = if via_dir && kind == "missing" { "good".to_string() } else { kind };
            let link = kind == "good" && t.chance(1, 8);
            files.push(FileSpec { name, text, enc, kind, link });
        }
        // a family of files made from one template: identical up to a token that owns child
        // lines (`if .. then`), different after it (state kept from one file to the next on the
        // same worker would be keyed alike)
        if t.chance(1, 3) {
            let head = &all[t.below(all.len() as u32) as usize].1;
            let k = 3 + t.below(4);
            for j in 0..k {
                let call = *t.pick(&[
                    "Foo(1)",
                    "SomeLongerRoutineName(Alpha, Beta, Gamma, Delta, Epsilon, Zeta, Eta, Theta, Iota, Kappa, Lambda, Mu, Nu, Xi)",
                    "X := Y",
                    "begin A; B; end",
                    "Result := Compute(First + Second * Third, Fourth - Fifth, [One, Two, Three, Four, Five, Six, Seven, Eight, Nine])",
                    "case Z of 1: A; 2: B; end",
                ]);
                let text = format!("{head}\nprocedure T;\nbegin\n  if Cond(1, 2) and Other(3) then\n    {call};\n  Done;\nend;\n");
                files.push(FileSpec { name: format!("t{j:02}.pas"), text, enc: "utf8".into(), kind: "good".into(), link: false });
            }
        }
        // an even number of failing files now and then (exit status must still be non-zero)
        if t.chance(1, 4) {
            let k = 2 * (1 + t.below(2)) as usize;
            for j in 0..k {
                let kind = (*t.pick(&["badutf8", "missing", "badutf16"])).to_string();
                let kind = if via_dir && kind == "missing" { "badutf8".to_string() } else { kind };
                files.push(FileSpec { name: format!("bad{j}.pas"), text: "x := 1;\n".into(), enc: "utf8".into(), kind, link: false });
            }
            for f in files.iter_mut() {
                if !f.name.starts_with("bad") {
                    f.kind = "good".into();
                }
            }
        }
        // boundary numbers of failing files (an exit status derived from a count)
        if !via_dir && t.chance(1, 6) {
            let want = *t.pick(&[256usize, 255, 257, 512, 128, 65536 / 64]);
            let have = files.iter().filter(|f| f.kind != "good").count();
            for j in 0..want.saturating_sub(have) {
                files.push(FileSpec { name: format!("miss{j:04}.pas"), text: String::new(), enc: "utf8".into(), kind: "missing".into(), link: false });
            }
        }
        let scn = Scn {
            files,
            threads: *t.pick(&[1, 2, 3, 4, 8, 16, 32]),
            jitter: format!("j{}", t.below(1000)),
            mode: (*t.pick(&["files", "files", "stdout"])).to_string(),
            reverse_order: t.chance(1, 2),
            via_dir,
        };
        let mut c = Case::text("batch", String::new(), cfg);
        c.extra = serde_json::to_value(scn).unwrap();
        Some(c)
    }
    fn hang_limit(&self, _case: &Case) -> Option<u64> {
        None
    }
    fn check(&self, case: &Case, ctx: &mut Ctx) -> Outcome {
        let Ok(scn) = serde_json::from_value::<Scn>(case.extra.clone()) else {
            return Outcome::Discard("no-scenario");
        };
        cli::check_no_config_above();
        let cfg_args = case.cfg.to_cli();
        let fail = |clause: &str, msg: String| {
            Outcome::Fail(
                Failure::new(clause, msg)
                    .fact(format!("threads:{}", scn.threads))
                    .fact(format!("mode:{}", scn.mode)),
            )
        };
        let sc = Scratch::new();
        for d in ["one/batch", "b/batch", "alone"] {
            let _ = std::fs::create_dir_all(sc.path(d));
        }
        // alone: each file in its own invocation, in its own directory copy
        let mut alone: Vec<Option<Vec<u8>>> = vec![];
        let mut alone_records: Vec<(String, String)> = vec![];
        for f in &scn.files {
            if f.kind == "missing" {
                alone.push(None);
                continue;
            }
            let rel = format!("alone/{}", f.name);
            let p = sc.write(&rel, &bytes_of(f));
            let mut a = cfg_args.clone();
            if scn.mode == "stdout" {
                a.push("--mode=stdout".into());
            }
            a.push(format!("batch/{}", f.name));
            // run in a directory where the relative path is the same as in the batch
            let bp = sc.write(&format!("one/batch/{}", f.name), &bytes_of(f));
            let r = cli::run_pasfmt(&a, &sc.path("one"), None, &[]);
            let good = f.kind == "good";
            if r.ok() != good {
                return fail("alone-exit", format!("{} alone: exit {:?} (kind {})", f.name, r.code, f.kind));
            }
            let after = std::fs::read(&bp).unwrap_or_default();
            if good && scn.mode == "files" {
                // the single-file result must equal the library model
                let model = model_bytes(f, &case.cfg);
                if after != model {
                    return fail("alone-model", format!("{} formatted alone differs from the library model ({} vs {} bytes)", f.name, after.len(), model.len()));
                }
            }
            if scn.mode == "stdout" && good {
                alone_records.push((format!("batch/{}", f.name), String::from_utf8_lossy(&r.stdout).into_owned()));
            }
            alone.push(Some(after));
            let _ = std::fs::remove_file(&bp);
            let _ = p;
        }
        // batch
        for f in &scn.files {
            if f.kind != "missing" {
                if f.link {
                    let target = sc.write(&format!("b/shared/{}", f.name), &bytes_of(f));
                    cli::age(&target);
                    let _ = std::fs::create_dir_all(sc.path("b/batch"));
                    if std::os::unix::fs::symlink(format!("../shared/{}", f.name), sc.path(&format!("b/batch/{}", f.name))).is_err() {
                        return Outcome::Discard("cannot-create-symlink");
                    }
                } else {
                    let p = sc.write(&format!("b/batch/{}", f.name), &bytes_of(f));
                    cli::age(&p);
                }
            }
        }
        let mut names: Vec<String> = scn.files.iter().map(|f| format!("batch/{}", f.name)).collect();
        if scn.reverse_order {
            names.reverse();
        }
        let mut a = cfg_args.clone();
        if scn.mode == "stdout" {
            a.push("--mode=stdout".into());
        }
        if scn.via_dir {
            a.push("batch".into());
        } else {
            a.extend(names);
        }
        let env = [("RAYON_NUM_THREADS", scn.threads.to_string()), ("PASFMT_VERIF_JITTER", scn.jitter.clone())];
        let r = cli::run_pasfmt(&a, &sc.path("b"), None, &env);
        let any_fail = scn.files.iter().any(|f| f.kind != "good");
        if r.ok() == any_fail {
            return fail(
                "exit-status",
                format!(
                    "batch exit {:?} with {} failing file(s); stderr {:?}",
                    r.code,
                    scn.files.iter().filter(|f| f.kind != "good").count(),
                    short(&r.stderr_text(), 300)
                ),
            );
        }
        for (f, al) in scn.files.iter().zip(&alone) {
            let p = sc.path(&format!("b/batch/{}", f.name));
            if f.kind == "missing" {
                if p.exists() {
                    return fail("missing-created", format!("{} was created", f.name));
                }
                continue;
            }
            let now = std::fs::read(&p).unwrap_or_default();
            let want = if f.kind == "good" && scn.mode == "files" { al.clone().unwrap() } else { bytes_of(f) };
            if now != want {
                return fail(
                    "batch-differs",
                    format!(
                        "{} ({}, {} bytes in): after the batch it has {} bytes, formatted alone {} bytes{}",
                        f.name,
                        f.kind,
                        bytes_of(f).len(),
                        now.len(),
                        want.len(),
                        if f.kind != "good" { " (a failing file must stay untouched)" } else { "" }
                    ),
                )
                .also(&format!("kind:{}", f.kind));
            }
        }
        if scn.mode == "stdout" {
            // records: the alone stdout is already `path:\n<text>\n`
            let so = String::from_utf8_lossy(&r.stdout).into_owned();
            let mut rest = so.as_str();
            let mut used = vec![false; alone_records.len()];
            'outer: while !rest.is_empty() {
                for (i, (_, rec)) in alone_records.iter().enumerate() {
                    if !used[i] && !rec.is_empty() && rest.starts_with(rec.as_str()) {
                        used[i] = true;
                        rest = &rest[rec.len()..];
                        continue 'outer;
                    }
                }
                return fail(
                    "stdout-records",
                    format!(
                        "batch stdout is not a sequence of the complete records the files give alone; unmatched text starts {:?}",
                        short(rest, 100)
                    ),
                );
            }
            if used.iter().any(|u| !u) {
                return fail("stdout-records", "a file's record is missing from the batch stdout".into());
            }
        }
        let lens: std::collections::BTreeSet<usize> = scn.files.iter().map(|f| f.text.len()).collect();
        ctx.class(&format!("threads:{}", scn.threads));
        ctx.class(if scn.via_dir { "form:directory-argument" } else { "form:list-of-files" });
        ctx.class_if(scn.files.iter().any(|f| f.link), "has-symlinked-file");
        ctx.class(&format!("mode:{}", scn.mode));
        ctx.class_if(any_fail, "has-failing-file");
        Outcome::Pass {
            nontrivial: (lens.len() >= 3 && (scn.threads as usize) < scn.files.len()) || (any_fail && scn.files.iter().any(|f| f.kind == "good")),
        }
    }
}

fn model_bytes(f: &FileSpec, cfg: &Cfg) -> Vec<u8> {
    let text = format_with(cfg, &f.text);
    match f.enc.as_str() {
        "utf8bom" => {
            let mut v = vec![0xEF, 0xBB, 0xBF];
            v.extend_from_slice(text.as_bytes());
            v
        }
        "utf16le" => {
            let mut v = vec![0xFF, 0xFE];
            v.extend(c17::utf16(&text, true));
            v
        }
        "utf16be" => {
            let mut v = vec![0xFE, 0xFF];
            v.extend(c17::utf16(&text, false));
            v
        }
        _ => text.into_bytes(),
    }
}

trait Also {
    fn also(self, fact: &str) -> Self;
}
impl Also for Outcome {
    fn also(self, fact: &str) -> Self {
        match self {
            Outcome::Fail(f) => Outcome::Fail(f.fact(fact)),
            o => o,
        }
    }
}
