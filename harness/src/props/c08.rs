//! C08 — output whitespace is canonical (DESIGN §5 C08).

use crate::engine::*;
use crate::gen::{common, soup};
use crate::model::nonblank::is_blank;
use crate::model::refscan::{self, Kind, Tok};
use crate::model::toggle;

pub struct C08Prop;
pub static C08: C08Prop = C08Prop;

/// Byte ranges of `s` exempt from the canonical-whitespace clauses: verbatim regions (from a
/// `pasfmt off` comment to the end of the next `pasfmt on` comment or the end of the text), the
/// instruction tokens of asm blocks with the gaps between them, and multi-line tokens.
pub fn exempt_ranges(s: &str, toks: &[Tok]) -> Vec<(usize, usize)> {
    let mut v: Vec<(usize, usize)> = vec![];
    let mut off_start: Option<usize> = None;
    let mut asm_start: Option<usize> = None;
    let mut last_asm_end = 0usize;
    // With conditional directives an `asm` block can extend differently in each branch (its
    // `end` may sit inside one); then everything from the first `asm` on is left unchecked.
    let any_cond = toks.iter().any(|t| t.kind == Kind::DirectiveCond);
    if any_cond {
        if let Some(a) = toks
            .iter()
            .find(|t| t.kind == Kind::Keyword && t.text(s).eq_ignore_ascii_case("asm"))
        {
            v.push((a.end, s.len()));
        }
    }
    for t in toks {
        if t.kind.is_comment() {
            match toggle::parse_toggle(t.text(s)) {
                Some(false) => {
                    if off_start.is_none() {
                        off_start = Some(t.start);
                    }
                }
                Some(true) => {
                    if let Some(a) = off_start.take() {
                        v.push((a, t.end));
                    }
                }
                None => {}
            }
        }
        if t.asm {
            if asm_start.is_none() {
                // the gap between `asm` and the first instruction belongs to the instruction token
                asm_start = Some(t.ws_start);
            }
            last_asm_end = t.end;
        } else if let Some(a) = asm_start.take() {
            v.push((a, last_asm_end));
        }
        if t.kind != Kind::Eof && s[t.start..t.end].contains(['\n', '\r']) {
            v.push((t.start, t.end));
        }
    }
    if let Some(a) = off_start {
        v.push((a, s.len()));
    }
    if let Some(a) = asm_start {
        v.push((a, last_asm_end));
    }
    v.sort();
    v
}

fn in_ranges(r: &[(usize, usize)], pos: usize) -> bool {
    // pos strictly inside [a, b): a position at b is outside
    r.iter().any(|(a, b)| pos >= *a && pos < *b)
}

#[derive(Default)]
pub struct WsReport {
    pub violations: Vec<Failure>,
}

/// Check clauses (1)-(4) on `s` under `cfg`. Returns the first violation per clause.
pub fn check_ws(s: &str, cfg: &Cfg) -> Vec<Failure> {
    let toks = refscan::scan(s);
    let ex = exempt_ranges(s, &toks);
    let mut out = vec![];
    let b = s.as_bytes();
    // (1) no line ends in a blank; (4) indentation of every line
    let mut line_start = 0usize;
    let mut first = true;
    let mut done1 = false;
    let mut done4 = false;
    while line_start <= s.len() {
        let nl = s[line_start..].find('\n').map(|o| line_start + o);
        let line_end_incl_cr = nl.unwrap_or(s.len());
        let mut line_end = line_end_incl_cr;
        if line_end > line_start && b[line_end - 1] == b'\r' && nl.is_some() {
            line_end -= 1;
        }
        let line = &s[line_start..line_end];
        // (1)
        if !done1 && !line.is_empty() {
            if let Some(last) = line.chars().next_back() {
                let last_pos = line_end - last.len_utf8();
                if is_blank(last) && !in_ranges(&ex, last_pos) {
                    // which token (if any) holds that blank?
                    let holder = toks
                        .iter()
                        .find(|t| last_pos >= t.start && last_pos < t.end)
                        .map(|t| format!("{:?}", t.kind))
                        .unwrap_or_else(|| {
                            if toks.last().is_some_and(|e| last_pos >= e.ws_start) {
                                "eof-gap".to_string()
                            } else {
                                "gap".to_string()
                            }
                        });
                    let before_off = toks.iter().any(|t| {
                        t.kind.is_comment()
                            && t.ws_start <= last_pos
                            && last_pos < t.start
                            && toggle::parse_toggle(t.text(s)).is_some()
                    });
                    out.push(
                        Failure::new(
                            "trailing-blank",
                            format!("output line ends in a blank ({:?}) at offset {last_pos}: {:?}", last, short(line, 80)),
                        )
                        .fact(format!("in:{holder}"))
                        .fact(if before_off { "gap-before-toggle" } else { "not-before-toggle" })
                        .fact(
                            if toks.iter().any(|t| {
                                last_pos >= t.start && last_pos < t.end && t.kind.is_comment() && toggle::parse_toggle(t.text(s)).is_some()
                            }) {
                                "blank-inside-toggle-comment"
                            } else {
                                "blank-not-in-toggle-comment"
                            },
                        ),
                    );
                    done1 = true;
                }
            }
        }
        // (4)
        if !done4 && !in_ranges(&ex, line_start) && !line.is_empty() {
            let indent: &str = {
                let mut e = 0;
                for c in line.chars() {
                    if is_blank(c) {
                        e += c.len_utf8();
                    } else {
                        break;
                    }
                }
                &line[..e]
            };
            // a whitespace-only line is reported by clause (1); indentation applies to lines with text
            if indent.len() < line.len() {
                let ok = if cfg.use_tabs {
                    indent.bytes().all(|c| c == b'\t')
                } else {
                    indent.bytes().all(|c| c == b' ')
                        && if cfg.tab_width == 0 {
                            indent.is_empty()
                        } else {
                            indent.len() % cfg.tab_width as usize == 0
                        }
                };
                if !ok {
                    let before_off = toks.iter().any(|t| {
                        t.kind.is_comment()
                            && t.start == line_start + indent.len()
                            && toggle::parse_toggle(t.text(s)).is_some()
                    });
                    out.push(
                        Failure::new(
                            "indentation",
                            format!(
                                "indentation {:?} is not a whole number of units ({}) in line {:?}",
                                indent,
                                if cfg.use_tabs { "tabs".to_string() } else { format!("{} spaces", cfg.tab_width) },
                                short(line, 80)
                            ),
                        )
                        .fact(if before_off { "gap-before-toggle" } else { "not-before-toggle" }),
                    );
                    done4 = true;
                }
            }
        }
        let _ = first;
        first = false;
        match nl {
            Some(p) => line_start = p + 1,
            None => break,
        }
    }
    // (2) gaps on one line, (3) blank lines
    let mut done2 = false;
    let mut done3 = false;
    for (i, t) in toks.iter().enumerate() {
        let gap = &s[t.ws_start..t.start];
        if gap.is_empty() {
            continue;
        }
        // a gap that lies inside an exempt range (between two verbatim tokens) is skipped; the gap
        // before the first token of a region is not inside it
        if in_ranges(&ex, t.ws_start) && (t.ws_start == t.start || in_ranges(&ex, t.start - 1)) {
            continue;
        }
        let nls = gap.matches('\n').count();
        let is_off = t.kind.is_comment() && toggle::parse_toggle(t.text(s)).is_some();
        let off_fact = if is_off { "gap-before-toggle" } else { "not-before-toggle" };
        if nls == 0 {
            if !done2 && i > 0 && t.kind != Kind::Eof && gap != " " {
                out.push(
                    Failure::new(
                        "gap",
                        format!(
                            "tokens on one line separated by {:?} before {:?}",
                            gap,
                            short(t.text(s), 30)
                        ),
                    )
                    .fact(off_fact),
                );
                done2 = true;
            }
        } else if !done3 {
            if i == 0 && t.kind != Kind::Eof {
                out.push(
                    Failure::new("blank-lines", format!("blank line at the start of the output ({:?})", gap))
                        .fact(off_fact)
                        .fact("at-start"),
                );
                done3 = true;
            } else if nls >= 3 {
                out.push(
                    Failure::new(
                        "blank-lines",
                        format!("{} consecutive blank lines before {:?}", nls - 1, short(t.text(s), 30)),
                    )
                    .fact(off_fact)
                    .fact(if t.kind == Kind::Eof { "before-eof" } else { "between-tokens" })
                    .fact(format!("at-token:{i}")),
                );
                done3 = true;
            }
        }
    }
    out
}

/// Where does token `k` of `input` (index in the token sequence, which formatting preserves for
/// well-formed code) stand with respect to the formatting toggles? Uses the parser under test
/// only to learn the logical lines and their parents:
/// * `ancestor-line-has-ignored-token`: the token's logical line is (transitively) a child line
///   of a line that contains tokens of a disabled region - such lines are not laid out at all
///   (finding F-C08-region-cuts-statement);
/// * `own-line-has-ignored-token`: the line itself mixes ignored and enabled tokens;
/// * `line-fully-enabled` otherwise.
pub fn toggle_context(input: &str, k: usize) -> &'static str {
    use pasfmt_core::prelude::*;
    let raw = DelphiLexer {}.lex(input);
    // ignored tokens by the harness's own toggle model
    let mut ignored = vec![false; raw.len()];
    let mut off = false;
    for (i, t) in raw.iter().enumerate() {
        let is_comment = matches!(t.get_token_type(), RawTokenType::Comment(_));
        let tg = if is_comment { toggle::parse_toggle(t.get_content()) } else { None };
        if tg == Some(false) {
            off = true;
        }
        ignored[i] = off;
        if tg == Some(true) {
            if !off {
                ignored[i] = true; // a stray `on` is itself kept verbatim
            }
            off = false;
        }
    }
    let (lines, _toks) = DelphiLogicalLineParser {}.parse(raw);
    let Some(mut li) = lines.iter().position(|l| l.get_tokens().contains(&k)) else {
        return "token-in-no-line";
    };
    let has_ignored = |li: usize| lines[li].get_tokens().iter().any(|t| ignored.get(*t).copied().unwrap_or(false));
    let own = has_ignored(li);
    let mut guard = 0;
    while let Some(p) = lines[li].get_parent() {
        li = p.line_index;
        guard += 1;
        if has_ignored(li) {
            return "ancestor-line-has-ignored-token";
        }
        if guard > 10_000 {
            break;
        }
    }
    if own {
        "own-line-has-ignored-token"
    } else {
        "line-fully-enabled"
    }
}

fn log_facts(f: Failure) -> Failure {
    let mut f = f;
    if logcap::any_contains("Iteration limit reached") {
        f = f.fact("log:iteration-limit");
    }
    if logcap::any_contains("No solution found") {
        f = f.fact("log:no-solution");
    }
    f
}

impl Prop for C08Prop {
    fn id(&self) -> &'static str {
        "C08"
    }
    fn rule(&self) -> String {
        "Streams: sigma3 = every sequence of 3 lexemes of the 109-lexeme alphabet (joined by two spaces, so the input itself is non-canonical); sigma2ws = every pair x 6 non-canonical separators x 4 configurations; random (proptest tapes) = soup / arbitrary UTF-8 / mutated seeds with generated configurations (tab_width x continuation_indents <= 255); prog = grammar-generated well-formed programs in random layouts (adds the end-of-file clause); toggled = such programs with verbatim regions and asm bodies. Oracle on the output, scanned by the independent reference scanner, skipping verbatim regions (pasfmt off..on), asm instruction tokens and multi-line tokens: (1) no line ends in a blank, (2) the gap between two tokens on a line is empty or one space, (3) no two consecutive blank lines and none at the start, (4) each line's indentation is tabs only (use_tabs) or a multiple of tab_width spaces, (5) well-formed input: the output ends with exactly one configured terminator. Non-trivial = the input itself violates one of (1)-(4); distinct by hash of (input, configuration)."
            .into()
    }
    fn assumptions(&self) -> Vec<String> {
        vec![
            "verbatim regions are located on the output with the harness's own toggle recogniser; asm instruction tokens are those the reference scanner lexes in asm mode".into(),
            "configurations with tab_width x continuation_indents > 255 are excluded by construction (finding F-C10-saturate)".into(),
        ]
    }
    fn streams(&self, tier: Tier) -> Vec<Stream> {
        let q = tier == Tier::Quick;
        let mut v = vec![
            Stream::exhaustive("sigma3", soup::space_size(3)),
            Stream::exhaustive("sigma2ws", soup::space_size(2) * 24),
            Stream::random("any", if q { 6000 } else { 80000 }, 400),
            Stream::random("any_chk", if q { 1000 } else { 10000 }, 400).chk(),
        ];
        v.extend(crate::props::wf::wf_streams(tier, 1));
        // programs with verbatim regions and asm bodies (C07's generator), judged by this oracle
        v.push(Stream::random("toggled", if q { 3000 } else { 30000 }, 700));
        // statements with multi-line string literals (C12's shapes): the re-indent / re-wrap rounds
        v.push(Stream::random("lits", if q { 3000 } else { 30000 }, 300));
        v
    }
    fn generate(&self, stream: &str, t: &mut Tape) -> Option<Case> {
        let stream = stream.trim_end_matches("_chk");
        match stream {
            "toggled" => crate::props::c07::C07.generate("prog", t),
            "lits" => {
                let mut c = crate::props::c12::C12.generate("lits", t)?;
                if t.chance(1, 2) {
                    c.cfg.wrap_column = *t.pick(&[30, 40, 45, 50, 60, 25, 35, 42, 44, 20]);
                }
                Some(c)
            }
            "any" => {
                let cfg = Cfg::gen_unsaturated(t);
                let (input, g) = common::gen_any_input(t, 80);
                Some(Case::text(g, input, cfg))
            }
            s => crate::props::wf::wf_generate(s, t, true),
        }
    }
    fn enumerate(&self, stream: &str, index: u64) -> Option<Case> {
        match stream {
            "sigma3" => Some(Case::text(
                "sigma3",
                soup::render_indices(&soup::decode(index, 3), "  "),
                Cfg::default(),
            )),
            "sigma2ws" => {
                let pair = index / 24;
                let r = (index % 24) as usize;
                let sep = ["  ", "\t", " \n", "\n\n\n\n", "\n      ", " \t \n\t"][r % 6];
                let cfg = match r / 6 {
                    0 => Cfg::default(),
                    1 => Cfg { use_tabs: true, crlf: true, ..Cfg::default() },
                    2 => Cfg { tab_width: 3, continuation_indents: 1, wrap_column: 12, ..Cfg::default() },
                    _ => Cfg { tab_width: 0, begin_always_wrap: true, ..Cfg::default() },
                };
                let body = soup::render_indices(&soup::decode(pair, 2), sep);
                Some(Case::text("sigma2ws", format!("{sep}{body}{sep}"), cfg))
            }
            _ => None,
        }
    }
    fn text_shrink(&self) -> bool {
        true
    }
    fn check(&self, case: &Case, ctx: &mut Ctx) -> Outcome {
        if case.cfg.saturates() {
            return Outcome::Discard("saturating-config");
        }
        let out = format_with(&case.cfg, &case.input);
        if case.ann.is_none() {
            // Arbitrary text: the exempt regions are located on the output, which is only
            // meaningful when the output still scans to the same kinds of tokens as the input
            // (for well-formed code that is C02), and toggle comments that cut through a
            // half-parsed construct are left to the well-formed streams.
            let ti = refscan::scan(&case.input);
            let to = refscan::scan(&out);
            if ti.len() != to.len() || ti.iter().zip(&to).any(|(a, b)| a.kind != b.kind) {
                return Outcome::Discard("output-scans-to-different-tokens");
            }
            if ti
                .iter()
                .any(|t| t.kind.is_comment() && toggle::parse_toggle(t.text(&case.input)).is_some())
            {
                return Outcome::Discard("arbitrary-text-with-toggle");
            }
        }
        let fails = check_ws(&out, &case.cfg);
        if let Some(mut f) = fails.into_iter().next() {
            if case.ann.is_some() && case.tags.iter().any(|t| t == "toggles") {
                let at = f.facts.iter().find_map(|x| x.strip_prefix("at-token:").and_then(|n| n.parse::<usize>().ok()));
                if let Some(k) = at {
                    f = f.fact(toggle_context(&case.input, k));
                }
            }
            f.facts.retain(|x| !x.starts_with("at-token:"));
            return Outcome::Fail(log_facts(f));
        }
        // a verbatim region that is still open at the end of the file is reproduced byte for byte
        // up to the end (C07), so the end-of-file clause cannot apply there
        let open_region_at_eof = {
            let toks = refscan::scan(&out);
            let mut off = false;
            for t in &toks {
                if t.kind.is_comment() {
                    match toggle::parse_toggle(t.text(&out)) {
                        Some(false) => off = true,
                        Some(true) => off = false,
                        None => {}
                    }
                }
            }
            off
        };
        if case.ann.is_some() && !open_region_at_eof {
            // (5) end-of-file clause for well-formed input
            let nl = case.cfg.nl();
            let ok = out.ends_with(nl)
                && !out[..out.len() - nl.len()].ends_with('\n')
                && !out[..out.len() - nl.len()].ends_with('\r');
            if !ok {
                let tail: String = out.chars().rev().take(12).collect::<Vec<_>>().into_iter().rev().collect();
                return Outcome::Fail(Failure::new(
                    "eof-terminator",
                    format!("output of well-formed input does not end with exactly one {:?}: tail {:?}", nl, tail),
                ));
            }
        }
        let input_dirty = !check_ws(&case.input, &case.cfg).is_empty();
        ctx.class_if(input_dirty, "input-non-canonical");
        ctx.class_if(case.ann.is_some(), "well-formed");
        Outcome::Pass { nontrivial: input_dirty }
    }
}
