//! C06 — output does not depend on the input's line wrapping or spacing (DESIGN §5 C06).

use crate::engine::*;
use crate::gen::layout::{self, Style};
use crate::props::wf;

pub struct C06Prop;
pub static C06: C06Prop = C06Prop;

impl Prop for C06Prop {
    fn id(&self) -> &'static str {
        "C06"
    }
    fn rule(&self) -> String {
        "Streams (proptest tapes): prog / progbig = grammar-derived programs with comments; two renderings r1, r2 of the same token vector that differ only in free gaps (amount and kind of horizontal blanks, indentation, space <-> single line break, zero width where the two lexemes may touch, 2..4 line breaks inside a blank-line group, leading/trailing blanks of the file) while every gap touching a comment and the set of blank-line groups are identical; both must scan back to the same lexemes; x generated configuration; stream toggled = the same with one `pasfmt off` .. `pasfmt on` region (several spellings and letter cases) between two statement boundaries, kept identical in both renderings. Oracle: format(r1) == format(r2). Cases in which the wrapper logged 'Iteration limit reached' / 'No solution found' are classified separately. Non-trivial = the renderings differ in >= 5 gaps including a newline <-> no-newline change and the output has >= 5 lines; distinct by hash of (r1, r2, configuration)."
            .into()
    }
    fn assumptions(&self) -> Vec<String> {
        vec![
            "blank-line grouping = which gaps between tokens contain at least one blank line".into(),
            "stream toggled: one verbatim region between two statement boundaries, byte-identical in both renderings; the instruction lines of asm blocks keep their gaps in both renderings (excluded by the statement)".into(),
        ]
    }
    fn streams(&self, tier: Tier) -> Vec<Stream> {
        let mut v = wf::wf_streams(tier, 2);
        // programs with a verbatim region between two statement boundaries: the region is
        // identical in both renderings, everything outside it is re-laid out
        v.push(Stream::random("toggled", if tier == Tier::Quick { 1500 } else { 15000 }, 700));
        v
    }
    fn generate(&self, stream: &str, t: &mut Tape) -> Option<Case> {
        let cfg = Cfg::gen_unsaturated(t);
        // asm blocks now and then: their instruction lines have fixed gaps (excluded by the
        // statement), but the `end;` that closes them is ordinary code
        let opts = crate::gen::prog::Opts { asm: t.chance(1, 4), ..Default::default() };
        let mut w = wf::build(t, wf::fuel_for(stream), opts, None, None)?;
        if stream == "toggled" {
            use crate::gen::prog::PTok;
            use crate::model::refscan::Kind;
            let n = w.prog.toks.len();
            // two statements (or members) of the same list: marks of role 0 with the same anchor.
            // A region that cuts through a compound statement leaves the rest of that statement
            // as typed (finding F-C08-region-cuts-statement), so both boundaries are list items.
            let items: Vec<(usize, u32)> = w
                .prog
                .marks
                .iter()
                .filter(|m| m.role == 0)
                .map(|m| (m.tok as usize, m.anchor))
                .filter(|(k, _)| *k > 0 && *k < n && w.prog.toks[*k].line_start && !w.prog.toks[*k].inserted && !w.prog.toks[*k - 1].inserted)
                .collect();
            if items.len() < 2 {
                return None;
            }
            let i = t.below(items.len() as u32) as usize;
            let same: Vec<usize> = items.iter().filter(|(k, an)| *an == items[i].1 && *k > items[i].0).map(|(k, _)| *k).collect();
            if same.is_empty() {
                return None;
            }
            let (a, b) = (items[i].0, same[t.below(same.len() as u32) as usize]);
            let off = *t.pick(&["// pasfmt off", "//pasfmt off", "{ pasfmt off }", "// PASFMT OFF", "(* pasfmt off *)", "// pasfmt Off: generated"]);
            let on = *t.pick(&["// pasfmt on", "//pasfmt on", "{ pasfmt on }", "// pasfmt ON", "(* PasFmt On *)", "// Pasfmt on again"]);
            let mk = |text: &str, depth: u16| PTok {
                text: text.to_string(),
                kind: if text.starts_with("//") { Kind::CommentLine } else { Kind::CommentBlock },
                line_start: true,
                depth,
                in_anon: false,
                inserted: true,
                fixed_gap: None,
            };
            let mut toks = Vec::with_capacity(n + 2);
            let mut region = vec![];
            for (k, tok) in w.prog.toks.iter().enumerate() {
                if k == a {
                    region.push(toks.len());
                    toks.push(mk(off, tok.depth));
                }
                if k == b {
                    region.push(toks.len());
                    toks.push(mk(on, tok.depth));
                }
                toks.push(tok.clone());
            }
            // marks are not used by this property
            w.prog.toks = toks;
            w.prog.marks.clear();
            let mut gaps = layout::gen_layout(&w.prog, t, w.style);
            layout::own_line_fixup(&w.prog, &mut gaps);
            // everything from the `off` comment to the `on` comment is the same in both renderings
            for g in gaps.iter_mut().take(region[1] + 1).skip(region[0]) {
                g.fixed = true;
            }
            // the toggle comments stand on their own lines
            for &r in &region {
                if gaps[r].nl == 0 {
                    gaps[r].nl = 1;
                }
                if gaps[r + 1].nl == 0 {
                    gaps[r + 1].nl = 1;
                }
            }
            w.input = layout::render(&w.prog, &gaps);
            w.gaps = gaps;
            if !wf::scans_to(&w.input, &w.prog) {
                return None;
            }
            w.prog.tags.insert("toggles");
        }
        let mut g2 = layout::relayout(&w.prog, &w.gaps, t);
        layout::own_line_fixup(&w.prog, &mut g2);
        // the fix-up may not move fixed gaps: re-impose them
        for (a, b) in g2.iter_mut().zip(&w.gaps) {
            if b.fixed {
                *a = b.clone();
            }
        }
        let r2 = layout::render(&w.prog, &g2);
        if !wf::scans_to(&r2, &w.prog) {
            return None;
        }
        let (ndiff, nlchange) = layout::layout_diff(&w.gaps, &g2);
        let mut c = wf::case_of(&w, cfg, stream);
        c.input2 = Some(r2);
        c.extra = serde_json::json!({"gaps_differ": ndiff, "newline_change": nlchange});
        let _ = Style::Pretty;
        Some(c)
    }
    fn check(&self, case: &Case, ctx: &mut Ctx) -> Outcome {
        let Some(r2) = &case.input2 else { return Outcome::Discard("no-second-rendering") };
        let o1 = format_with(&case.cfg, &case.input);
        let lim1 = logcap::any_contains("Iteration limit reached");
        let nos1 = logcap::any_contains("No solution found");
        let o2 = format_with(&case.cfg, r2);
        let lim = lim1 || logcap::any_contains("Iteration limit reached");
        let nos = nos1 || logcap::any_contains("No solution found");
        if o1 != o2 {
            let mut la = o1.split('\n');
            let mut lb = o2.split('\n');
            let mut n = 0;
            let (a, b) = loop {
                n += 1;
                match (la.next(), lb.next()) {
                    (Some(x), Some(y)) if x == y => continue,
                    (x, y) => break (x.unwrap_or("<end>").to_string(), y.unwrap_or("<end>").to_string()),
                }
            };
            let mut f = Failure::new(
                "relayout",
                format!(
                    "format(r1) != format(r2): first difference in output line {n}: {:?} vs {:?}",
                    short(&a, 100),
                    short(&b, 100)
                ),
            );
            f = f.fact(if o1.trim_end() == o2.trim_end() { "differ-only-in-blanks-at-eof" } else { "differ-before-eof" });
            if lim {
                f = f.fact("log:iteration-limit");
            }
            if nos {
                f = f.fact("log:no-solution");
            }
            return Outcome::Fail(f);
        }
        wf::classes(case, ctx);
        ctx.class_if(lim, "iteration-limit-reached");
        let nd = case.extra.get("gaps_differ").and_then(|v| v.as_u64()).unwrap_or(0);
        let nlc = case.extra.get("newline_change").and_then(|v| v.as_bool()).unwrap_or(false);
        Outcome::Pass { nontrivial: nd >= 5 && nlc && o1.lines().count() >= 5 }
    }
}
