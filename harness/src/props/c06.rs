//! C06 — output does not depend on the input's line wrapping or spacing (DESIGN §5 C06).

use crate::engine::*;
use crate::gen::layout::{self, Style};
use crate::props::wf;

pub struct C06Prop;
pub static C06: C06Prop = C06Prop;

impl Prop for C06Prop {
    fn id(&self) -> &'static str {
        "C06"
    }
    fn rule(&self) -> String {
        "Streams (proptest tapes): prog / progbig = grammar-derived programs with comments; two renderings r1, r2 of the same token vector that differ only in free gaps (amount and kind of horizontal blanks, indentation, space <-> single line break, zero width where the two lexemes may touch, 2..4 line breaks inside a blank-line group, leading/trailing blanks of the file) while every gap touching a comment and the set of blank-line groups are identical; both must scan back to the same lexemes; x generated configuration. Oracle: format(r1) == format(r2). Cases in which the wrapper logged 'Iteration limit reached' / 'No solution found' are classified separately. Non-trivial = the renderings differ in >= 5 gaps including a newline <-> no-newline change and the output has >= 5 lines; distinct by hash of (r1, r2, configuration)."
            .into()
    }
    fn assumptions(&self) -> Vec<String> {
        vec![
            "blank-line grouping = which gaps between tokens contain at least one blank line".into(),
            "no verbatim regions or asm blocks in this stream (excluded by the statement)".into(),
        ]
    }
    fn streams(&self, tier: Tier) -> Vec<Stream> {
        wf::wf_streams(tier, 2)
    }
    fn generate(&self, stream: &str, t: &mut Tape) -> Option<Case> {
        let cfg = Cfg::gen_unsaturated(t);
        let w = wf::build(t, wf::fuel_for(stream), Default::default(), None, None)?;
        let mut g2 = layout::relayout(&w.prog, &w.gaps, t);
        layout::own_line_fixup(&w.prog, &mut g2);
        // the fix-up may not move fixed gaps: re-impose them
        for (a, b) in g2.iter_mut().zip(&w.gaps) {
            if b.fixed {
                *a = b.clone();
            }
        }
        let r2 = layout::render(&w.prog, &g2);
        if !wf::scans_to(&r2, &w.prog) {
            return None;
        }
        let (ndiff, nlchange) = layout::layout_diff(&w.gaps, &g2);
        let mut c = wf::case_of(&w, cfg, stream);
        c.input2 = Some(r2);
        c.extra = serde_json::json!({"gaps_differ": ndiff, "newline_change": nlchange});
        let _ = Style::Pretty;
        Some(c)
    }
    fn check(&self, case: &Case, ctx: &mut Ctx) -> Outcome {
        let Some(r2) = &case.input2 else { return Outcome::Discard("no-second-rendering") };
        let o1 = format_with(&case.cfg, &case.input);
        let lim1 = logcap::any_contains("Iteration limit reached");
        let nos1 = logcap::any_contains("No solution found");
        let o2 = format_with(&case.cfg, r2);
        let lim = lim1 || logcap::any_contains("Iteration limit reached");
        let nos = nos1 || logcap::any_contains("No solution found");
        if o1 != o2 {
            let mut la = o1.split('\n');
            let mut lb = o2.split('\n');
            let mut n = 0;
            let (a, b) = loop {
                n += 1;
                match (la.next(), lb.next()) {
                    (Some(x), Some(y)) if x == y => continue,
                    (x, y) => break (x.unwrap_or("<end>").to_string(), y.unwrap_or("<end>").to_string()),
                }
            };
            let mut f = Failure::new(
                "relayout",
                format!(
                    "format(r1) != format(r2): first difference in output line {n}: {:?} vs {:?}",
                    short(&a, 100),
                    short(&b, 100)
                ),
            );
            if lim {
                f = f.fact("log:iteration-limit");
            }
            if nos {
                f = f.fact("log:no-solution");
            }
            return Outcome::Fail(f);
        }
        wf::classes(case, ctx);
        ctx.class_if(lim, "iteration-limit-reached");
        let nd = case.extra.get("gaps_differ").and_then(|v| v.as_u64()).unwrap_or(0);
        let nlc = case.extra.get("newline_change").and_then(|v| v.as_bool()).unwrap_or(false);
        Outcome::Pass { nontrivial: nd >= 5 && nlc && o1.lines().count() >= 5 }
    }
}
