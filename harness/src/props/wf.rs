//! Shared wiring for the well-formed-program streams (G-prog x G-layout), used by the
//! properties that quantify over well-formed code.

use crate::engine::*;

/// Streams of grammar-generated programs. `weight` scales the case counts.
pub fn wf_streams(_tier: Tier, _weight: u64) -> Vec<Stream> {
    vec![]
}

pub fn wf_generate(_stream: &str, _t: &mut Tape, _gen_cfg: bool) -> Option<Case> {
    None
}
