//! Shared wiring for the well-formed-program streams (G-prog x G-layout x G-comment), used by
//! the properties that quantify over well-formed code.

use crate::engine::*;
use crate::gen::layout::{self, CommentPolicy, Gap, Style};
use crate::gen::prog::{self, Opts, Prog};
use crate::model::refscan;

pub struct Wf {
    pub prog: Prog,
    pub gaps: Vec<Gap>,
    pub input: String,
    pub style: Style,
}

/// Streams of grammar-generated programs. `weight` scales the case counts.
pub fn wf_streams(tier: Tier, weight: u64) -> Vec<Stream> {
    let q = tier == Tier::Quick;
    vec![
        Stream::random("prog", weight * if q { 1500 } else { 15000 }, 700),
        Stream::random("progbig", weight * if q { 60 } else { 1000 }, 4000),
    ]
}

pub fn fuel_for(stream: &str) -> i32 {
    match stream {
        "progbig" => 600,
        _ => 90,
    }
}

/// Does `text` scan (independent reference scanner) to exactly the intended lexemes?
pub fn scans_to(text: &str, p: &Prog) -> bool {
    let a = refscan::scan(text);
    if a.len() != p.toks.len() + 1 {
        return false;
    }
    for (t, x) in a.iter().zip(&p.toks) {
        if t.kind != x.kind || t.text(text) != x.text {
            return false;
        }
    }
    // Only the independent scanner decides whether a rendering is usable: if the lexer under
    // test tokenises a well-formed rendering differently, that must surface as a failure of the
    // property being checked, not be filtered away here.
    true
}

pub fn build(t: &mut Tape, fuel: i32, opts: Opts, policy: Option<CommentPolicy>, style: Option<Style>) -> Option<Wf> {
    let p0 = prog::gen_prog(t, fuel, opts);
    if p0.toks.is_empty() {
        return None;
    }
    let mut p0 = p0;
    // letter case of keywords (the formatter lower-cases them)
    match t.below(6) {
        0 => {
            for tok in p0.toks.iter_mut().filter(|x| x.kind == refscan::Kind::Keyword) {
                tok.text = tok.text.to_ascii_uppercase();
            }
            p0.tags.insert("keywords:upper");
        }
        1 => {
            for (i, tok) in p0.toks.iter_mut().enumerate().filter(|(_, x)| x.kind == refscan::Kind::Keyword) {
                if i % 3 != 0 {
                    let mut c = tok.text.chars();
                    if let Some(f) = c.next() {
                        tok.text = f.to_ascii_uppercase().to_string() + c.as_str();
                    }
                }
            }
            p0.tags.insert("keywords:capitalised");
        }
        _ => {}
    }
    // the program is built; comments and layout get an unbounded supply of choices
    t.stretch();
    let policy = policy.unwrap_or_else(|| *t.pick(&[CommentPolicy::None, CommentPolicy::LineEdges, CommentPolicy::Anywhere, CommentPolicy::LineEdges]));
    let density = 6 + t.below(30);
    let p = layout::insert_comments(&p0, t, policy, density);
    let style = style.unwrap_or_else(|| *t.pick(&[Style::Pretty, Style::Pretty, Style::Wild, Style::Compact, Style::OneSpace, Style::Flush]));
    let mut gaps = layout::gen_layout(&p, t, style);
    layout::own_line_fixup(&p, &mut gaps);
    let input = layout::render(&p, &gaps);
    if !scans_to(&input, &p) {
        if std::env::var("VERIF_DEBUG_GEN").is_ok() {
            let a = refscan::scan(&input);
            let k = a.iter().zip(&p.toks).position(|(t, x)| t.kind != x.kind || t.text(&input) != x.text);
            eprintln!("render mismatch at token {:?}: scanned {:?} intended {:?}", k, k.map(|k| a[k].text(&input).to_string()), k.map(|k| (p.toks[k].text.clone(), p.toks.get(k + 1).map(|t| t.text.clone()))));
        }
        return None;
    }
    Some(Wf { prog: p, gaps, input, style })
}

pub fn ann_of(p: &Prog) -> Ann {
    Ann {
        lexemes: p.toks.iter().map(|t| t.text.clone()).collect(),
        kinds: p.toks.iter().map(|t| t.kind as u8).collect(),
        marks: p.marks.clone(),
        tags: p.tags.iter().map(|s| s.to_string()).collect(),
    }
}

pub fn case_of(wf: &Wf, cfg: Cfg, gen: &str) -> Case {
    let mut c = Case::text(gen, wf.input.clone(), cfg);
    c.ann = Some(ann_of(&wf.prog));
    c.tags = wf.prog.tags.iter().map(|s| s.to_string()).collect();
    c.tags.push(format!("style:{:?}", wf.style));
    c
}

pub fn wf_generate(stream: &str, t: &mut Tape, gen_cfg: bool) -> Option<Case> {
    wf_generate_opts(stream, t, gen_cfg, Opts::default())
}

pub fn wf_generate_opts(stream: &str, t: &mut Tape, gen_cfg: bool, opts: Opts) -> Option<Case> {
    if stream != "prog" && stream != "progbig" {
        return None;
    }
    let cfg = if gen_cfg { Cfg::gen_unsaturated(t) } else { Cfg::default() };
    let wf = build(t, fuel_for(stream), opts, None, None)?;
    Some(case_of(&wf, cfg, stream))
}

/// Record the construct tags of a generated program in the class histogram.
pub fn classes(case: &Case, ctx: &mut Ctx) {
    for t in &case.tags {
        ctx.class(&format!("tag:{t}"));
    }
    if let Some(a) = &case.ann {
        ctx.class(match a.lexemes.len() {
            0..=19 => "tokens:<20",
            20..=99 => "tokens:20-99",
            100..=499 => "tokens:100-499",
            _ => "tokens:>=500",
        });
    }
}
