//! C03 — formatting is idempotent on well-formed code (DESIGN §5 C03).

use crate::engine::*;
use crate::model::refscan::{self, Kind};
use crate::props::{c02, wf};

pub struct C03Prop;
pub static C03: C03Prop = C03Prop;

fn first_diff_line(a: &str, b: &str) -> (usize, String, String) {
    let mut la = a.split('\n');
    let mut lb = b.split('\n');
    let mut n = 0;
    loop {
        n += 1;
        match (la.next(), lb.next()) {
            (Some(x), Some(y)) if x == y => continue,
            (x, y) => return (n, x.unwrap_or("<end>").to_string(), y.unwrap_or("<end>").to_string()),
        }
    }
}

/// Facts for known-finding signatures: does pass 1 rewrite a multi-line string, and where
/// does the first difference between pass 1 and pass 2 lie relative to it.
fn mlstr_facts(input: &str, p1: &str, p2: &str) -> Vec<String> {
    let mut v = vec![];
    let ti = refscan::scan(input);
    let t1 = refscan::scan(p1);
    let changed_ml = ti.len() == t1.len()
        && ti
            .iter()
            .zip(&t1)
            .any(|(a, b)| a.kind == Kind::TextMulti && a.text(input) != b.text(p1));
    let has_ml = t1.iter().any(|t| t.kind == Kind::TextMulti);
    if changed_ml {
        v.push("pass1-rewrote-mlstr".to_string());
        // is a rewritten literal part of a logical line that has a parent (a child line)?
        use pasfmt_core::prelude::*;
        let raw = DelphiLexer {}.lex(input);
        let (lines, _toks) = DelphiLogicalLineParser {}.parse(raw);
        let rewritten: Vec<usize> = ti
            .iter()
            .zip(&t1)
            .enumerate()
            .filter(|(_, (a, b))| a.kind == Kind::TextMulti && a.text(input) != b.text(p1))
            .map(|(i, _)| i)
            .collect();
        if lines
            .iter()
            .any(|l| l.get_parent().is_some() && l.get_tokens().iter().any(|t| rewritten.contains(t)))
        {
            v.push("rewritten-mlstr-in-child-line".to_string());
        }
    }
    if has_ml {
        v.push("has-mlstr".to_string());
    }
    // first differing byte
    let d = p1.bytes().zip(p2.bytes()).position(|(a, b)| a != b).unwrap_or(p1.len().min(p2.len()));
    if let Some(ml) = t1.iter().find(|t| t.kind == Kind::TextMulti) {
        v.push(if d >= ml.start { "diff-at-or-after-first-mlstr".into() } else { "diff-before-mlstr".into() });
    }
    v
}

impl Prop for C03Prop {
    fn id(&self) -> &'static str {
        "C03"
    }
    fn rule(&self) -> String {
        "Streams (proptest tapes): prog / progbig = grammar-derived programs with comments in pretty / compact / one-space / wild layouts (as C02), narrow widths emphasised; seeds = repository seed inputs and expected outputs on which both scanners agree; each x generated configuration. Oracle: with y = format(x): format(y) == y byte for byte, and format^3(x) == format^2(x). Non-trivial = format(x) != x and the output has a wrapped line or a comment; distinct by hash of (input, configuration)."
            .into()
    }
    fn assumptions(&self) -> Vec<String> {
        vec!["well-formed = derivable from the harness grammar, or a repository seed that both scanners tokenise identically without unknown/unterminated tokens".into()]
    }
    fn streams(&self, tier: Tier) -> Vec<Stream> {
        let q = tier == Tier::Quick;
        let mut v = wf::wf_streams(tier, 2);
        v.push(Stream::random("mlprog", if q { 500 } else { 8000 }, 700));
        v.push(Stream::random("lits", if q { 1500 } else { 20000 }, 300));
        v.push(Stream::random("mlperturb", if q { 600 } else { 8000 }, 700));
        v.push(Stream::random("seeds", if q { 800 } else { 8000 }, 32));
        v
    }
    fn generate(&self, stream: &str, t: &mut Tape) -> Option<Case> {
        let mut c = match stream {
            "seeds" => c02::seed_case(t)?,
            "lits" => crate::props::c12::C12.generate("lits", t)?,
            "mlperturb" => {
                // a canonical program (the formatter's own output) in which one multi-line
                // string that is not the last one gets a different indentation: only that
                // literal has to be rewritten, the later ones are already in place
                let cfg = Cfg::gen_unsaturated(t);
                let mut c = crate::props::c12::C12.generate(if t.chance(1, 2) { "lits" } else { "mlprog" }, t)?;
                c.cfg = cfg.clone();
                let canon = format_with(&cfg, &c.input);
                let toks = refscan::scan(&canon);
                let mls: Vec<usize> = toks.iter().enumerate().filter(|(_, x)| x.kind == Kind::TextMulti).map(|(i, _)| i).collect();
                if mls.len() < 2 {
                    return None;
                }
                let which = mls[t.below(mls.len() as u32 - 1) as usize];
                let tk = toks[which];
                let lit = tk.text(&canon);
                let p = crate::props::c12::parse_literal(lit)?;
                if crate::props::c12::classify(&p) != crate::props::c12::Class::Valid {
                    return None;
                }
                // new indentation: shorter or longer by a few columns
                let old = p.close_indent.clone();
                let new_indent = match t.below(3) {
                    0 => String::new(),
                    1 => format!("{old}   "),
                    _ => old.chars().skip(2).collect(),
                };
                let q = "'".repeat(p.quotes);
                let mut relit = q.clone();
                relit.push('\n');
                for (l, _) in &p.lines {
                    match l.strip_prefix(old.as_str()) {
                        Some(r) if !r.is_empty() || l.len() == old.len() => {
                            if !r.is_empty() {
                                relit.push_str(&new_indent);
                                relit.push_str(r);
                            }
                        }
                        _ => {}
                    }
                    relit.push('\n');
                }
                relit.push_str(&new_indent);
                relit.push_str(&q);
                let input = format!("{}{}{}", &canon[..tk.start], relit, &canon[tk.end..]);
                let a = refscan::scan(&input);
                let b = refscan::scan_impl(&input);
                if a.len() != b.len() || a.len() != toks.len() {
                    return None;
                }
                c.input = input.clone();
                c.ann = Some(Ann {
                    lexemes: a[..a.len() - 1].iter().map(|x| x.text(&input).to_string()).collect(),
                    kinds: a[..a.len() - 1].iter().map(|x| x.kind as u8).collect(),
                    marks: vec![],
                    tags: vec![],
                });
                c.gen = "mlperturb".into();
                c.tags.push("mlperturb".into());
                c
            }
            "mlprog" => {
                let cfg = Cfg::gen_unsaturated(t);
                let opts = crate::gen::prog::Opts { mlstr: true, ..Default::default() };
                let w = wf::build(t, 60, opts, None, None)?;
                wf::case_of(&w, cfg, "mlprog")
            }
            s => wf::wf_generate(s, t, true)?,
        };
        // emphasise narrow widths: that is where wrapping decisions interact
        if t.chance(1, 2) {
            c.cfg.wrap_column = *t.pick(&[30, 20, 40, 10, 60, 25, 35, 50, 15, 80]);
        }
        Some(c)
    }
    fn check(&self, case: &Case, ctx: &mut Ctx) -> Outcome {
        if case.ann.is_none() {
            return Outcome::Discard("no-annotation");
        }
        let p1 = format_with(&case.cfg, &case.input);
        let limit1 = logcap::any_contains("Iteration limit reached");
        let p2 = format_with(&case.cfg, &p1);
        if p2 != p1 {
            let (n, a, b) = first_diff_line(&p1, &p2);
            let mut f = Failure::new(
                "idempotence",
                format!(
                    "format(format(x)) != format(x): first difference in line {n}: pass 1 {:?}, pass 2 {:?}",
                    short(&a, 100),
                    short(&b, 100)
                ),
            );
            f.facts.extend(mlstr_facts(&case.input, &p1, &p2));
            if limit1 || logcap::any_contains("Iteration limit reached") {
                f = f.fact("log:iteration-limit");
            }
            return Outcome::Fail(f);
        }
        let p3 = format_with(&case.cfg, &p2);
        if p3 != p2 {
            return Outcome::Fail(Failure::new("idempotence-3", "format^3(x) != format^2(x)".into()));
        }
        wf::classes(case, ctx);
        let changed = p1 != case.input;
        ctx.class_if(changed, "pass1-changed-input");
        let has_comment = case
            .ann
            .as_ref()
            .is_some_and(|a| a.kinds.iter().any(|k| *k == Kind::CommentLine as u8 || *k == Kind::CommentBlock as u8));
        let wrapped = p1.lines().count() > case.ann.as_ref().map_or(0, |a| a.lexemes.iter().filter(|l| *l == ";").count() + 2);
        Outcome::Pass { nontrivial: changed && (has_comment || wrapped) }
    }
}
