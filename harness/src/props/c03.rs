//! C03 — formatting is idempotent on well-formed code (DESIGN §5 C03).

use crate::engine::*;
use crate::model::refscan::{self, Kind};
use crate::props::{c02, wf};

pub struct C03Prop;
pub static C03: C03Prop = C03Prop;

fn first_diff_line(a: &str, b: &str) -> (usize, String, String) {
    let mut la = a.split('\n');
    let mut lb = b.split('\n');
    let mut n = 0;
    loop {
        n += 1;
        match (la.next(), lb.next()) {
            (Some(x), Some(y)) if x == y => continue,
            (x, y) => return (n, x.unwrap_or("<end>").to_string(), y.unwrap_or("<end>").to_string()),
        }
    }
}

/// Facts for known-finding signatures: does pass 1 rewrite a multi-line string, and where
/// does the first difference between pass 1 and pass 2 lie relative to it.
fn mlstr_facts(input: &str, p1: &str, p2: &str) -> Vec<String> {
    let mut v = vec![];
    let ti = refscan::scan(input);
    let t1 = refscan::scan(p1);
    let changed_ml = ti.len() == t1.len()
        && ti
            .iter()
            .zip(&t1)
            .any(|(a, b)| a.kind == Kind::TextMulti && a.text(input) != b.text(p1));
    let has_ml = t1.iter().any(|t| t.kind == Kind::TextMulti);
    if changed_ml {
        v.push("pass1-rewrote-mlstr".to_string());
        // is a rewritten literal part of a logical line that has a parent (a child line)?
        use pasfmt_core::prelude::*;
        let raw = DelphiLexer {}.lex(input);
        let (lines, _toks) = DelphiLogicalLineParser {}.parse(raw);
        let rewritten: Vec<usize> = ti
            .iter()
            .zip(&t1)
            .enumerate()
            .filter(|(_, (a, b))| a.kind == Kind::TextMulti && a.text(input) != b.text(p1))
            .map(|(i, _)| i)
            .collect();
        if lines
            .iter()
            .any(|l| l.get_parent().is_some() && l.get_tokens().iter().any(|t| rewritten.contains(t)))
        {
            v.push("rewritten-mlstr-in-child-line".to_string());
        }
    }
    if has_ml {
        v.push("has-mlstr".to_string());
    }
    // first differing byte
    let d = p1.bytes().zip(p2.bytes()).position(|(a, b)| a != b).unwrap_or(p1.len().min(p2.len()));
    if let Some(ml) = t1.iter().find(|t| t.kind == Kind::TextMulti) {
        v.push(if d >= ml.start { "diff-at-or-after-first-mlstr".into() } else { "diff-before-mlstr".into() });
    }
    v
}

impl Prop for C03Prop {
    fn id(&self) -> &'static str {
        "C03"
    }
    fn rule(&self) -> String {
        "Streams (proptest tapes): prog / progbig = grammar-derived programs with comments in pretty / compact / one-space / wild layouts (as C02), narrow widths emphasised; seeds = repository seed inputs and expected outputs on which both scanners agree; mlprog / lits / mlperturb = programs with multi-line string literals (several per statement, chained through call arguments, one literal of a canonical text mis-indented); each x generated configuration. Oracle: with y = format(x): format(y) == y byte for byte, and format^3(x) == format^2(x). Stream cli = the statement's second form through the binary: the program is written as UTF-8 / UTF-8+BOM / UTF-16LE+BOM / windows-1252 with the configuration in pasfmt.toml or -C options; `pasfmt f` then `pasfmt --mode=check f` must exit 0 and not modify f; a second `pasfmt f` must leave bytes and modification time untouched. Non-trivial = format(x) != x and the output has a wrapped line or a comment; distinct by hash of (input, configuration)."
            .into()
    }
    fn assumptions(&self) -> Vec<String> {
        vec!["well-formed = derivable from the harness grammar, or a repository seed that both scanners tokenise identically without unknown/unterminated tokens".into()]
    }
    fn streams(&self, tier: Tier) -> Vec<Stream> {
        let q = tier == Tier::Quick;
        let mut v = wf::wf_streams(tier, 2);
        v.push(Stream::random("mlprog", if q { 500 } else { 8000 }, 700));
        v.push(Stream::random("lits", if q { 1500 } else { 20000 }, 300));
        v.push(Stream::random("mlperturb", if q { 600 } else { 8000 }, 700));
        v.push(Stream::random("seeds", if q { 800 } else { 8000 }, 32));
        // the statement's second form: `pasfmt f && pasfmt --mode=check f`, and a second
        // in-place run rewrites nothing
        v.push(Stream::random("cli", if q { 200 } else { 2000 }, 700).shards(if q { 4 } else { 8 }));
        v
    }
    fn generate(&self, stream: &str, t: &mut Tape) -> Option<Case> {
        let mut c = match stream {
            "seeds" => c02::seed_case(t)?,
            "lits" => crate::props::c12::C12.generate("lits", t)?,
            "mlperturb" => {
                // a canonical program (the formatter's own output) in which one multi-line
                // string that is not the last one gets a different indentation: only that
                // literal has to be rewritten, the later ones are already in place
                let cfg = Cfg::gen_unsaturated(t);
                let mut c = crate::props::c12::C12.generate(if t.chance(1, 2) { "lits" } else { "mlprog" }, t)?;
                c.cfg = cfg.clone();
                let canon = format_with(&cfg, &c.input);
                let toks = refscan::scan(&canon);
                let mls: Vec<usize> = toks.iter().enumerate().filter(|(_, x)| x.kind == Kind::TextMulti).map(|(i, _)| i).collect();
                if mls.len() < 2 {
                    return None;
                }
                let which = mls[t.below(mls.len() as u32 - 1) as usize];
                let tk = toks[which];
                let lit = tk.text(&canon);
                let p = crate::props::c12::parse_literal(lit)?;
                if crate::props::c12::classify(&p) != crate::props::c12::Class::Valid {
                    return None;
                }
                // new indentation: shorter or longer by a few columns
                let old = p.close_indent.clone();
                let new_indent = match t.below(3) {
                    0 => String::new(),
                    1 => format!("{old}   "),
                    _ => old.chars().skip(2).collect(),
                };
                let q = "'".repeat(p.quotes);
                let mut relit = q.clone();
                relit.push('\n');
                for (l, _) in &p.lines {
                    match l.strip_prefix(old.as_str()) {
                        Some(r) if !r.is_empty() || l.len() == old.len() => {
                            if !r.is_empty() {
                                relit.push_str(&new_indent);
                                relit.push_str(r);
                            }
                        }
                        _ => {}
                    }
                    relit.push('\n');
                }
                relit.push_str(&new_indent);
                relit.push_str(&q);
                let input = format!("{}{}{}", &canon[..tk.start], relit, &canon[tk.end..]);
                let a = refscan::scan(&input);
                let b = refscan::scan_impl(&input);
                if a.len() != b.len() || a.len() != toks.len() {
                    return None;
                }
                c.input = input.clone();
                c.ann = Some(Ann {
                    lexemes: a[..a.len() - 1].iter().map(|x| x.text(&input).to_string()).collect(),
                    kinds: a[..a.len() - 1].iter().map(|x| x.kind as u8).collect(),
                    marks: vec![],
                    tags: vec![],
                });
                c.gen = "mlperturb".into();
                c.tags.push("mlperturb".into());
                c
            }
            "mlprog" => {
                let cfg = Cfg::gen_unsaturated(t);
                let opts = crate::gen::prog::Opts { mlstr: true, ..Default::default() };
                let w = wf::build(t, 60, opts, None, None)?;
                wf::case_of(&w, cfg, "mlprog")
            }
            "cli" => {
                let enc = *t.pick(&["utf-8", "utf-8-bom", "utf-16le-bom", "windows-1252", "utf-8"]);
                let cfg_in_file = t.chance(1, 2);
                let mut c = match t.below(3) {
                    0 => crate::props::c12::C12.generate("lits", t)?,
                    1 => {
                        let opts = crate::gen::prog::Opts { mlstr: true, ..Default::default() };
                        let w = wf::build(t, 60, opts, None, None)?;
                        wf::case_of(&w, Cfg::gen_unsaturated(t), "cli")
                    }
                    _ => wf::wf_generate("prog", t, true)?,
                };
                c.gen = "cli".into();
                c.extra = serde_json::json!({"cli": enc, "cfg_in_file": cfg_in_file});
                c
            }
            s => wf::wf_generate(s, t, true)?,
        };
        // emphasise narrow widths: that is where wrapping decisions interact
        if t.chance(1, 2) {
            c.cfg.wrap_column = *t.pick(&[30, 20, 40, 10, 60, 25, 35, 50, 15, 80]);
        }
        Some(c)
    }
    fn check(&self, case: &Case, ctx: &mut Ctx) -> Outcome {
        if case.ann.is_none() {
            return Outcome::Discard("no-annotation");
        }
        if case.extra.get("cli").is_some() {
            return check_cli(case, ctx);
        }
        let p1 = format_with(&case.cfg, &case.input);
        let limit1 = logcap::any_contains("Iteration limit reached");
        let p2 = format_with(&case.cfg, &p1);
        if p2 != p1 {
            let (n, a, b) = first_diff_line(&p1, &p2);
            let mut f = Failure::new(
                "idempotence",
                format!(
                    "format(format(x)) != format(x): first difference in line {n}: pass 1 {:?}, pass 2 {:?}",
                    short(&a, 100),
                    short(&b, 100)
                ),
            );
            f.facts.extend(mlstr_facts(&case.input, &p1, &p2));
            f = f.fact(if case.cfg.wrap_column <= 30 { "wrap<=30" } else { "wrap>30" });
            if limit1 || logcap::any_contains("Iteration limit reached") {
                f = f.fact("log:iteration-limit");
            }
            return Outcome::Fail(f);
        }
        let p3 = format_with(&case.cfg, &p2);
        if p3 != p2 {
            return Outcome::Fail(Failure::new("idempotence-3", "format^3(x) != format^2(x)".into()));
        }
        wf::classes(case, ctx);
        let changed = p1 != case.input;
        ctx.class_if(changed, "pass1-changed-input");
        let has_comment = case
            .ann
            .as_ref()
            .is_some_and(|a| a.kinds.iter().any(|k| *k == Kind::CommentLine as u8 || *k == Kind::CommentBlock as u8));
        let wrapped = p1.lines().count() > case.ann.as_ref().map_or(0, |a| a.lexemes.iter().filter(|l| *l == ";").count() + 2);
        Outcome::Pass { nontrivial: changed && (has_comment || wrapped) }
    }
}

/// `pasfmt f` then `pasfmt --mode=check f` (must accept), then `pasfmt f` again (must not touch
/// the file: same bytes, modification time untouched). No reference to the library: the binary
/// is its own subject here, the oracle is the fixpoint.
fn check_cli(case: &Case, ctx: &mut Ctx) -> Outcome {
    use crate::engine::cli;
    cli::check_no_config_above();
    let enc = case.extra.get("cli").and_then(|v| v.as_str()).unwrap_or("utf-8");
    let in_file = case.extra.get("cfg_in_file").and_then(|v| v.as_bool()).unwrap_or(false);
    let (bytes, enc_opt): (Vec<u8>, &str) = match enc {
        "utf-8-bom" => {
            let mut b = vec![0xEF, 0xBB, 0xBF];
            b.extend_from_slice(case.input.as_bytes());
            (b, "utf-8")
        }
        "utf-16le-bom" => {
            let mut b = vec![0xFF, 0xFE];
            for u in case.input.encode_utf16() {
                b.extend_from_slice(&u.to_le_bytes());
            }
            (b, "utf-8")
        }
        "windows-1252" => {
            let (b, _, bad) = encoding_rs::WINDOWS_1252.encode(&case.input);
            if bad {
                return Outcome::Discard("not-representable");
            }
            (b.into_owned(), "windows-1252")
        }
        _ => (case.input.as_bytes().to_vec(), "utf-8"),
    };
    let sc = cli::Scratch::new();
    let p = sc.write("u.pas", &bytes);
    let mut args: Vec<String> = vec![];
    if in_file {
        sc.write("pasfmt.toml", format!("{}encoding = \"{enc_opt}\"\n", case.cfg.to_toml()).as_bytes());
    } else {
        args = case.cfg.to_cli();
        args.push(format!("-Cencoding={enc_opt}"));
    }
    ctx.class(&format!("cli:{enc}"));
    let fail = |clause: &str, msg: String| Outcome::Fail(Failure::new(clause, msg).fact("via-cli").fact(format!("enc:{enc}")));
    let mut a1 = args.clone();
    a1.push("u.pas".into());
    let r = cli::run_pasfmt(&a1, &sc.dir, None, &[]);
    if !r.ok() {
        return fail("cli-exit", format!("first run: exit {:?}: {}", r.code, short(&r.stderr_text(), 200)));
    }
    let limit = r.stderr_text().contains("Iteration limit reached");
    let after1 = std::fs::read(&p).unwrap_or_default();
    let mut a2 = args.clone();
    a2.push("--mode=check".into());
    a2.push("u.pas".into());
    let r = cli::run_pasfmt(&a2, &sc.dir, None, &[]);
    let limit = limit || r.stderr_text().contains("Iteration limit reached");
    let mut facts: Vec<String> = vec![];
    if limit {
        facts.push("log:iteration-limit".into());
    }
    if !r.ok() {
        // locate the difference with the library for the message and the finding signatures
        let p1 = format_with(&case.cfg, &case.input);
        let p2 = format_with(&case.cfg, &p1);
        facts.extend(mlstr_facts(&case.input, &p1, &p2));
        facts.push(if case.cfg.wrap_column <= 30 { "wrap<=30".into() } else { "wrap>30".into() });
        let (n, a, b) = first_diff_line(&p1, &p2);
        return Outcome::Fail(
            Failure::new(
                "idempotence",
                format!(
                    "--mode=check rejects (exit {:?}) the file pasfmt has just written; library passes differ first in line {n}: {:?} vs {:?}",
                    r.code,
                    short(&a, 100),
                    short(&b, 100)
                ),
            )
            .fact("via-cli")
            .facts(&facts),
        );
    }
    if std::fs::read(&p).unwrap_or_default() != after1 {
        return fail("cli-check-wrote", "--mode=check modified the file".into());
    }
    let old = cli::age(&p);
    let r = cli::run_pasfmt(&a1, &sc.dir, None, &[]);
    if !r.ok() {
        return fail("cli-exit", format!("second run: exit {:?}: {}", r.code, short(&r.stderr_text(), 200)));
    }
    let after2 = std::fs::read(&p).unwrap_or_default();
    if after2 != after1 {
        return Outcome::Fail(
            Failure::new("idempotence", "a second in-place run changed the file pasfmt had just written".into())
                .fact("via-cli")
                .facts(&facts),
        );
    }
    if cli::mtime(&p) != Some(old) {
        return fail("cli-rewrote", "a second in-place run rewrote an already formatted file (modification time changed)".into());
    }
    let changed = after1 != bytes;
    ctx.class_if(changed, "cli:first-run-changed-file");
    Outcome::Pass { nontrivial: changed }
}
