//! C05 — block structure is rendered: one statement per line at its nesting depth (DESIGN §5 C05).

use crate::engine::*;
use crate::gen::layout::CommentPolicy;
use crate::model::nonblank::is_blank;
use crate::model::refscan;
use crate::props::{c02, wf};

pub struct C05Prop;
pub static C05: C05Prop = C05Prop;

struct LineInfo {
    /// byte offset of the line start
    start: usize,
    /// indentation in units, or None when it is not a whole number of units
    units: Option<usize>,
    indent_len: usize,
}

fn line_info(out: &str, pos: usize, cfg: &Cfg) -> LineInfo {
    let start = out[..pos].rfind('\n').map(|p| p + 1).unwrap_or(0);
    let line = &out[start..];
    let mut e = 0;
    for c in line.chars() {
        if is_blank(c) && c != '\n' && c != '\r' {
            e += c.len_utf8();
        } else {
            break;
        }
    }
    let ind = &line[..e];
    let units = if cfg.use_tabs {
        ind.bytes().all(|c| c == b'\t').then_some(ind.len())
    } else if cfg.tab_width == 0 {
        None
    } else {
        (ind.bytes().all(|c| c == b' ') && ind.len() % cfg.tab_width as usize == 0)
            .then_some(ind.len() / cfg.tab_width as usize)
    };
    LineInfo { start, units, indent_len: e }
}

impl Prop for C05Prop {
    fn id(&self) -> &'static str {
        "C05"
    }
    fn rule(&self) -> String {
        "Streams (proptest tapes): prog / progbig = grammar-derived programs for which the generator records, for every statement of a statement list (begin/end, repeat/until, try sections, case-else, initialization), every member of a const/var/type section and of a class/record/interface body or visibility section, its first token and the token that starts the line opening the enclosing block; comments only at line edges; all layouts; x generated configuration (all widths, both begin styles, tabs/spaces). Oracle (tokens located in the output by the reference scanner, after checking C02's token equality): every marked start is the first token on its output line and indented exactly one unit deeper than the opener's line; closers (end/until/except/finally, case/try else) are first on their line at the opener's indentation; with begin_style=always_wrap every control-flow `begin` is first on its line at the controlling statement's indentation; file-level keywords (unit, interface, implementation, initialization, section keywords, routine headers and their begin) start a line at indentation 0, which pins the absolute depth. Statements inside anonymous-routine bodies are not asserted. Non-trivial = >= 10 marks and (>= 3 nesting levels or a call with comparison / anonymous routine / generic); distinct by hash of (input, configuration)."
            .into()
    }
    fn assumptions(&self) -> Vec<String> {
        vec![
            "the 'line that opens the enclosing block' is the line of the controlling statement's first token (if/for/while/with/on/case label), or of begin/repeat/try/except/finally/else/the section keyword/the type's name".into(),
            "anonymous-routine bodies, case-arm single statements and then/do single statements are not asserted (not in the statement)".into(),
            "tab_width = 0 with spaces is skipped (the unit is empty)".into(),
        ]
    }
    fn streams(&self, tier: Tier) -> Vec<Stream> {
        wf::wf_streams(tier, 2)
    }
    fn generate(&self, stream: &str, t: &mut Tape) -> Option<Case> {
        let cfg = Cfg::gen_unsaturated(t);
        let policy = *t.pick(&[CommentPolicy::None, CommentPolicy::LineEdges]);
        let w = wf::build(t, wf::fuel_for(stream), Default::default(), Some(policy), None)?;
        Some(wf::case_of(&w, cfg, stream))
    }
    fn check(&self, case: &Case, ctx: &mut Ctx) -> Outcome {
        let Some(ann) = &case.ann else { return Outcome::Discard("no-annotation") };
        let cfg = &case.cfg;
        if !cfg.use_tabs && cfg.tab_width == 0 {
            return Outcome::Discard("empty-indentation-unit");
        }
        let out = format_with(cfg, &case.input);
        let logf = logcap::facts();
        if c02::check_rescan(case, &out).is_err() {
            return Outcome::Discard("tokens-differ(C02)");
        }
        let toks = refscan::scan(&out);
        let first_on_line = |k: usize| -> bool {
            let li = line_info(&out, toks[k].start, cfg);
            li.start + li.indent_len == toks[k].start
        };
        let mut checked = 0;
        let mut by_role = [0u32; 4];
        let mut max_units = 0;
        for m in &ann.marks {
            let (mt, at) = (m.tok as usize, m.anchor as usize);
            if m.role == 2 && !cfg.begin_always_wrap {
                continue;
            }
            if m.role == 3 {
                // file-level keywords and routine headers: first on their line, no indentation
                let lm = line_info(&out, toks[mt].start, cfg);
                if !first_on_line(mt) || lm.indent_len != 0 {
                    let line_m = out[lm.start..].lines().next().unwrap_or("");
                    return Outcome::Fail(
                        Failure::new(
                            "top-level-indent",
                            format!(
                                "file-level {:?} (token {mt}) must start a line at indentation 0; its line is {:?}",
                                short(&ann.lexemes[mt], 30),
                                short(line_m, 100)
                            ),
                        )
                        .fact(format!("mark-text:{}", ann.lexemes[mt].to_ascii_lowercase()))
                        .facts(&logf),
                    );
                }
                checked += 1;
                by_role[3] += 1;
                continue;
            }
            let la = line_info(&out, toks[at].start, cfg);
            if !first_on_line(at) {
                ctx.class("anchor-not-first-on-line(skipped)");
                continue;
            }
            let lm = line_info(&out, toks[mt].start, cfg);
            let what = match m.role {
                0 => "statement/member start",
                1 => "block closer",
                _ => "control-flow begin",
            };
            let describe = |msg: &str| {
                let line_m = out[lm.start..].lines().next().unwrap_or("");
                let line_a = out[la.start..].lines().next().unwrap_or("");
                Failure::new(
                    match m.role {
                        0 => "statement-indent",
                        1 => "closer-indent",
                        _ => "begin-wrap",
                    },
                    format!(
                        "{what} {:?} (token {mt}): {msg}; its line {:?}; opener line {:?}",
                        short(&ann.lexemes[mt], 30),
                        short(line_m, 100),
                        short(line_a, 100)
                    ),
                )
                .fact(format!("mark-text:{}", ann.lexemes[mt].to_ascii_lowercase()))
                .fact(format!("anchor-text:{}", ann.lexemes[at].to_ascii_lowercase()))
                .facts(&logf)
            };
            if !first_on_line(mt) {
                return Outcome::Fail(describe("is not the first token on its output line").fact("not-first"));
            }
            let (Some(um), Some(ua)) = (lm.units, la.units) else {
                return Outcome::Fail(describe("indentation is not a whole number of units").fact("non-unit"));
            };
            let want = if m.role == 0 { ua + 1 } else { ua };
            if um != want {
                return Outcome::Fail(
                    describe(&format!("indented {um} units, expected {want}")).fact("wrong-level"),
                );
            }
            checked += 1;
            by_role[m.role as usize & 3] += 1;
            max_units = max_units.max(um);
        }
        wf::classes(case, ctx);
        ctx.class_if(cfg.begin_always_wrap, "always_wrap");
        // which clauses were really asserted in this case (vacuity audit)
        ctx.class_if(by_role[0] > 0, "asserted:statement/member-start");
        ctx.class_if(by_role[1] > 0, "asserted:block-closer");
        ctx.class_if(by_role[2] > 0, "asserted:control-flow-begin(always_wrap)");
        ctx.class_if(by_role[3] > 0, "asserted:file-level-indentation-0");
        let rich = case.tags.iter().any(|t| t == "relational" || t == "anon-routine" || t.starts_with("generic"));
        Outcome::Pass { nontrivial: checked >= 10 && (max_units >= 3 || rich) }
    }
}
