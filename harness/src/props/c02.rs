//! C02 — well-formed code re-scans to the same tokens after formatting (DESIGN §5 C02).

use crate::engine::*;
use crate::model::refscan::{self, Kind, Tok};
use crate::props::wf;

pub struct C02Prop;
pub static C02: C02Prop = C02Prop;

fn is_separator(body: &str) -> bool {
    let b = body.trim_end_matches(|c: char| c.is_ascii_whitespace());
    let mut it = b.chars();
    match it.next() {
        Some(f) if !f.is_alphanumeric() => b.chars().count() >= 10 && b.chars().all(|c| c == f),
        _ => false,
    }
}

/// The documented normalisation of a line comment.
pub fn normalise_line_comment(c: &str) -> String {
    let Some(rest) = c.strip_prefix("//") else { return c.to_string() };
    let (slashes, body) = match rest.strip_prefix('/') {
        Some(b) => ("///", b),
        None => ("//", rest),
    };
    let mut s = String::new();
    s.push_str(slashes);
    if body.chars().next().is_some_and(|ch| !ch.is_ascii_whitespace()) && !is_separator(body) {
        s.push(' ');
    }
    s.push_str(body);
    let t = s.trim_end_matches(|ch: char| ch <= ' ' || ch == '\u{3000}');
    t.to_string()
}

pub fn upper_directive_name(d: &str) -> String {
    let open = if d.starts_with("{$") { 2 } else if d.starts_with("(*$") { 3 } else { return d.to_string() };
    let b = d.as_bytes();
    let mut e = open;
    while e < b.len() && (b[e].is_ascii_alphanumeric() || b[e] == b'_') {
        e += 1;
    }
    format!("{}{}{}", &d[..open], d[open..e].to_ascii_uppercase(), &d[e..])
}

/// Value lines of a multi-line literal: interior lines with the closing indentation removed.
/// None when the literal is not valid (a line does not start with the closing indentation and
/// is not blank-prefix).
pub fn mlstr_value(lit: &str) -> Option<Vec<String>> {
    let q = lit.bytes().take_while(|c| *c == b'\'').count();
    if q < 3 || lit.len() < 2 * q {
        return None;
    }
    let inner = &lit[q..lit.len() - q];
    // split at CRLF, LF, CR
    let mut lines: Vec<&str> = vec![];
    let mut start = 0;
    let b = inner.as_bytes();
    let mut i = 0;
    while i < b.len() {
        if b[i] == b'\r' || b[i] == b'\n' {
            lines.push(&inner[start..i]);
            if b[i] == b'\r' && b.get(i + 1) == Some(&b'\n') {
                i += 1;
            }
            start = i + 1;
        }
        i += 1;
    }
    let last = &inner[start..];
    if !last.chars().all(|c| c <= ' ' || c == '\u{3000}') {
        return None; // text before the closing quotes
    }
    // lines[0] is the remainder of the opening line (empty)
    let indent = last;
    let mut v = vec![];
    for l in lines.iter().skip(1) {
        if let Some(r) = l.strip_prefix(indent) {
            v.push(r.to_string());
        } else if indent.starts_with(l) {
            v.push(String::new());
        } else {
            return None;
        }
    }
    Some(v)
}

/// Is `out_text` an allowed rendering of the input lexeme `in_text` of kind `kind`?
pub fn allowed(kind: Kind, in_text: &str, out_text: &str, cfg: &Cfg) -> bool {
    if in_text == out_text {
        return true;
    }
    match kind {
        Kind::Keyword => out_text == in_text.to_ascii_lowercase(),
        Kind::DirectiveCond | Kind::DirectiveCompiler => out_text == upper_directive_name(in_text),
        Kind::CommentLine => out_text == normalise_line_comment(in_text),
        Kind::TextMulti => {
            cfg.format_multiline_strings
                && match (mlstr_value(in_text), mlstr_value(out_text)) {
                    (Some(a), Some(b)) => a == b,
                    _ => false,
                }
        }
        _ => false,
    }
}

pub fn compare_tokens(
    who: &str,
    ann: &Ann,
    out: &str,
    toks: &[Tok],
    cfg: &Cfg,
) -> Result<(), Failure> {
    let n = ann.lexemes.len();
    for k in 0..n.min(toks.len().saturating_sub(1)) {
        let t = &toks[k];
        let kind = Kind::from_u8(ann.kinds[k]);
        let text = t.text(out);
        if t.kind != kind || !allowed(kind, &ann.lexemes[k], text, cfg) {
            let prev = if k > 0 { ann.lexemes[k - 1].as_str() } else { "" };
            return Err(Failure::new(
                "rescan",
                format!(
                    "{who}: token {k} of the output is {:?} {:?}; the input has {:?} {:?} there (previous lexeme {:?})",
                    t.kind,
                    short(text, 60),
                    kind,
                    short(&ann.lexemes[k], 60),
                    short(prev, 30)
                ),
            )
            .fact(format!("in-kind:{:?}", kind))
            .fact(format!("out-kind:{:?}", t.kind)));
        }
    }
    if toks.len() != n + 1 {
        return Err(Failure::new(
            "rescan",
            format!("{who}: the output scans to {} tokens, the input has {}", toks.len() - 1, n),
        ));
    }
    Ok(())
}

/// The C02 oracle; shared (as a precondition with failure reporting) by C05.
pub fn check_rescan(case: &Case, out: &str) -> Result<(), Failure> {
    let ann = case.ann.as_ref().expect("well-formed case");
    compare_tokens("reference scanner", ann, out, &refscan::scan(out), &case.cfg)?;
    compare_tokens("DelphiLexer", ann, out, &refscan::scan_impl(out), &case.cfg)?;
    Ok(())
}

impl Prop for C02Prop {
    fn id(&self) -> &'static str {
        "C02"
    }
    fn rule(&self) -> String {
        "Streams (proptest tapes): prog / progbig = programs derived from the harness grammar (units, programs, declaration and statement fragments; const/var/type sections, classes, records, interfaces, enums, procedural types, generics, routines with parameters and directives, all statement kinds, expressions by precedence, anonymous routines), keywords in lower/upper/capitalised case, comments inserted at line edges or anywhere (line, doc, separator, block, multi-line), rendered in pretty / compact / one-space / wild layouts; seeds = repository seed programs on which both scanners agree; each x generated configuration. A case is used only if its rendering scans back to the intended lexemes. Oracle: scanning the output with the independent reference scanner and with DelphiLexer gives the same number of tokens with the same coarse kinds, and each text is either unchanged or exactly one documented normalisation (keyword lower-cased, directive name upper-cased, line comment normalised, valid multi-line string value-equal). Non-trivial = >= 20 tokens and a comment, directive, generic, or a literal next to a word; distinct by hash of (input, configuration)."
            .into()
    }
    fn assumptions(&self) -> Vec<String> {
        vec![
            "well-formed = derivable from the harness grammar (DESIGN Appendix A); seeds are used only where reference scanner and lexer agree on the input".into(),
            "a normalisation that is permitted but not applied is not a violation".into(),
        ]
    }
    fn streams(&self, tier: Tier) -> Vec<Stream> {
        let q = tier == Tier::Quick;
        let mut v = wf::wf_streams(tier, 2);
        v.push(Stream::random("seeds", if q { 500 } else { 5000 }, 32));
        v.push(Stream::random("lits", if q { 6000 } else { 60000 }, 300));
        v.push(Stream::random("mlprog", if q { 400 } else { 6000 }, 700));
        v
    }
    fn generate(&self, stream: &str, t: &mut Tape) -> Option<Case> {
        if stream == "seeds" {
            return seed_case(t);
        }
        if stream == "lits" || stream == "mlprog" {
            // the multi-line literal shapes of C12 (its generator), judged by C02's oracle
            let mut c = crate::props::c12::C12.generate(stream, t)?;
            // narrow widths: the re-indent / re-wrap rounds interact there
            if t.chance(1, 2) {
                c.cfg.wrap_column = t.range(15, 45);
            }
            return Some(c);
        }
        let mut c = wf::wf_generate_opts(stream, t, true, crate::gen::prog::Opts { typeref_cmp: true, ..Default::default() })?;
        // line-ending variants of the whole file (tokens spanning lines change with it)
        let nl = match t.below(12) {
            0..=2 => "\r\n",
            3 => "\r",
            _ => return Some(c),
        };
        c.input = c.input.replace('\n', nl);
        if let Some(a) = c.ann.as_mut() {
            for l in a.lexemes.iter_mut() {
                if l.contains('\n') {
                    *l = l.replace('\n', nl);
                }
            }
        }
        c.tags.push(if nl == "\r" { "endings:cr".into() } else { "endings:crlf".into() });
        Some(c)
    }
    fn check(&self, case: &Case, ctx: &mut Ctx) -> Outcome {
        let Some(ann) = &case.ann else { return Outcome::Discard("no-annotation") };
        let out = format_with(&case.cfg, &case.input);
        if let Err(f) = check_rescan(case, &out) {
            return Outcome::Fail(f);
        }
        wf::classes(case, ctx);
        let has = |k: Kind| ann.kinds.iter().any(|x| *x == k as u8);
        let interesting = has(Kind::CommentLine)
            || has(Kind::CommentBlock)
            || has(Kind::DirectiveCond)
            || has(Kind::DirectiveCompiler)
            || case.tags.iter().any(|t| t.starts_with("generic"))
            || has(Kind::Text)
            || has(Kind::Number);
        Outcome::Pass { nontrivial: ann.lexemes.len() >= 20 && interesting }
    }
}

/// A repository seed as a "well-formed" case: annotation = its own scan, used only when the
/// reference scanner and the lexer agree and it has no unknown / unterminated token.
pub fn seed_case(t: &mut Tape) -> Option<Case> {
    let all = crate::gen::seeds::texts();
    let (name, text) = &all[t.below(all.len() as u32) as usize];
    let cfg = Cfg::gen_unsaturated(t);
    let a = refscan::scan(text);
    let b = refscan::scan_impl(text);
    if a.len() != b.len()
        || a.iter().zip(&b).any(|(x, y)| x.start != y.start || x.end != y.end || x.kind != y.kind)
        || a.iter().any(|x| matches!(x.kind, Kind::Unknown | Kind::TextUnterminated))
    {
        return None;
    }
    let mut c = Case::text("seed", text.clone(), cfg);
    c.ann = Some(Ann {
        lexemes: a[..a.len() - 1].iter().map(|x| x.text(text).to_string()).collect(),
        kinds: a[..a.len() - 1].iter().map(|x| x.kind as u8).collect(),
        marks: vec![],
        tags: vec![format!("seed:{name}")],
    });
    c.tags = vec!["seed".to_string()];
    Some(c)
}
