//! C15 — cursor tracking keeps cursors on the same text and never alters the result (DESIGN §5 C15).

use crate::engine::*;
use crate::gen::common;
use crate::model::refscan::{self, Kind};

pub struct C15Prop;
pub static C15: C15Prop = C15Prop;

pub struct CursorFacts {
    pub inside_moved: bool,
    pub aligned: bool,
    /// cursors for which clause 3 (same offset in the same unchanged token) was asserted
    pub clause3: u32,
    /// cursors beyond the end of the input (clause 4)
    pub clause4: u32,
}

/// The C15 oracle on (input, cfg, cursors).
pub fn check_cursors(input: &str, cfg: &Cfg, cursors: &[u32]) -> Result<CursorFacts, Failure> {
    let plain = format_with(cfg, input);
    let (out, res) = format_with_cursors(cfg, input, cursors);
    check_cursor_results(input, cfg, cursors, &plain, out, res)
}

/// The oracle proper, on a result obtained through the library or through the binary.
pub fn check_cursor_results(
    input: &str,
    cfg: &Cfg,
    cursors: &[u32],
    plain: &str,
    out: String,
    res: Vec<u32>,
) -> Result<CursorFacts, Failure> {
    if out != plain {
        return Err(Failure::new(
            "text-changed",
            format!(
                "requesting cursors {:?} changed the formatted text ({} vs {} bytes)",
                cursors,
                out.len(),
                plain.len()
            ),
        ));
    }
    if res.len() != cursors.len() {
        return Err(Failure::new("count", "cursor list length changed".into()));
    }
    for (c, r) in cursors.iter().zip(&res) {
        let r = *r as usize;
        if r > out.len() || !out.is_char_boundary(r) {
            // facts for finding signatures: where was the cursor?
            let ti = refscan::scan(input);
            let cu = *c as usize;
            let in_blanks = ti.iter().any(|t| cu >= t.ws_start && cu < t.start);
            let multibyte_blanks = ti.iter().any(|t| cu >= t.ws_start && cu < t.start && !input[t.ws_start..t.start].is_ascii());
            let has_toggle = ti
                .iter()
                .any(|t| t.kind.is_comment() && crate::model::toggle::parse_toggle(t.text(input)).is_some());
            return Err(Failure::new(
                "bounds",
                format!("cursor {c} is reported at {r}, outside the output ({} bytes) or inside a character", out.len()),
            )
            .fact(if in_blanks { "cursor-in-blanks" } else { "cursor-in-token" })
            .fact(if has_toggle { "has-toggle" } else { "no-toggle" })
            .fact(if multibyte_blanks { "blanks-have-multibyte-char" } else { "blanks-ascii" })
            .fact(if cfg.crlf { "cfg:crlf" } else { "cfg:lf" }));
        }
        if *c as usize > input.len() && r != out.len() {
            return Err(Failure::new(
                "past-end",
                format!("cursor {c} beyond the end of the input ({} bytes) is reported at {r}, not at the end of the output ({})", input.len(), out.len()),
            ));
        }
    }
    // token correspondence by the reference scanner on both sides
    let ti = refscan::scan(input);
    let to = refscan::scan(&out);
    let aligned = ti.len() == to.len() && ti.iter().zip(&to).all(|(a, b)| a.kind == b.kind);
    let mut inside_moved = false;
    let mut clause3 = 0u32;
    let clause4 = cursors.iter().filter(|c| **c as usize > input.len()).count() as u32;
    if aligned {
        for (c, r) in cursors.iter().zip(&res) {
            let c = *c as usize;
            let r = *r as usize;
            if c >= input.len() {
                continue;
            }
            // tokens whose content range [start, end] contains c
            let k = ti.partition_point(|t| t.end < c);
            let mut candidates: Vec<usize> = vec![];
            for j in k..ti.len().min(k + 2) {
                let t = &ti[j];
                if t.kind != Kind::Eof && c >= t.start && c <= t.end {
                    candidates.push(j);
                }
            }
            if candidates.is_empty() {
                continue; // inside blanks: nothing beyond bounds is asserted
            }
            // every candidate token must be unchanged for the clause to apply
            if !candidates.iter().all(|&j| ti[j].text(input) == to[j].text(&out)) {
                continue;
            }
            let expected: Vec<usize> = candidates.iter().map(|&j| to[j].start + (c - ti[j].start)).collect();
            if !expected.contains(&r) {
                let j = candidates[0];
                return Err(Failure::new(
                    "offset",
                    format!(
                        "cursor {c} is at offset {} of unchanged token {:?} ({:?}) but is reported at {r}; expected {:?}",
                        c - ti[j].start,
                        short(ti[j].text(input), 40),
                        ti[j].kind,
                        expected
                    ),
                )
                .fact(format!("kind:{:?}", ti[j].kind))
                .fact(if ti[j].text(input).contains('\n') { "multiline-token" } else { "single-line-token" }));
            }
            clause3 += 1;
            let j = candidates[0];
            if c > ti[j].start && c < ti[j].end && r != c {
                inside_moved = true;
            }
        }
    }
    Ok(CursorFacts { inside_moved, aligned, clause3, clause4 })
}

impl Prop for C15Prop {
    fn id(&self) -> &'static str {
        "C15"
    }
    fn rule(&self) -> String {
        "Streams (proptest tapes): any = soup / arbitrary UTF-8 / mutated seeds / directive-heavy / nested inputs; seeds = repository seed programs verbatim or re-spaced; boundary = multi-line comments / strings with lines of 65 535 and 65 536 bytes; prog = grammar-generated programs in random layouts; each x generated configuration x 1-8 cursors drawn from {0, end, end+1, u32::MAX, every char boundary} with emphasis on token starts / interiors / ends. Oracle: (1) the text formatted with cursors equals the text formatted without; (2) every result <= output length and on a char boundary; (3) a cursor at content offset o of a token whose text is byte-identical in the output (tokens of both sides from the independent reference scanner, compared only when the two token lists line up) is reported at that token's output start + o, either neighbour being accepted where two tokens touch; (4) cursors beyond the end of the input map to the end of the output (a cursor exactly at the end is covered by clause 3: it is at the end of the last token). Stream cli = the same four clauses on what the binary reports: `pasfmt --cursor a,b,c` on stdin or on one file (exactly one `CURSOR=<list>` line on stderr, list parsed and fed to the oracle; stdout / the file must hold the text formatted without --cursor), on two files (both formatted as without the option), and with --mode=check (exit status unaffected by the cursors). Non-trivial = at least one cursor strictly inside an unchanged token whose offset changed; distinct by hash of (input, configuration, cursors)."
            .into()
    }
    fn assumptions(&self) -> Vec<String> {
        vec![
            "cursor offsets lie on character boundaries (API contract)".into(),
            "nothing is asserted for cursors inside blanks beyond clause (2)".into(),
        ]
    }
    fn streams(&self, tier: Tier) -> Vec<Stream> {
        let q = tier == Tier::Quick;
        let mut v = vec![
            Stream::random("any", if q { 5000 } else { 100000 }, 400),
            Stream::random("any_chk", if q { 2000 } else { 20000 }, 400).chk(),
            Stream::random("seeds", if q { 6000 } else { 60000 }, 64),
            Stream::random("boundary", if q { 4 } else { 30 }, 32).shards(8),
            // multi-line literals that get re-indented, cursors inside them (C12's generator)
            Stream::random("lits", if q { 3000 } else { 40000 }, 300),
            Stream::random("lits_chk", if q { 1000 } else { 10000 }, 300).chk(),
            // the same oracle on what the binary reports (`--cursor`, the CURSOR= line on stderr)
            Stream::random("cli", if q { 300 } else { 3000 }, 600).shards(if q { 4 } else { 8 }),
        ];
        v.extend(crate::props::wf::wf_streams(tier, 1));
        v
    }
    fn generate(&self, stream: &str, t: &mut Tape) -> Option<Case> {
        let stream = stream.trim_end_matches("_chk");
        let cfg = Cfg::gen(t);
        let (input, g): (String, &str) = match stream {
            "any" => common::gen_any_input(t, 60),
            "seeds" => {
                let all = crate::gen::seeds::texts();
                let s = all[t.below(all.len() as u32) as usize].1.clone();
                let s = match t.below(4) {
                    0 => s,
                    1 => s.replace('\n', "\r\n"),
                    2 => s.replace(' ', "   "),
                    _ => s.replace(", ", ",").replace(" := ", ":="),
                };
                (s, "seed")
            }
            "lits" => {
                let mut c = crate::props::c12::C12.generate("lits", t)?;
                c.cursors = gen_token_cursors(t, &c.input);
                return Some(c);
            }
            "cli" => {
                let via = *t.pick(&["stdin", "file", "two-files", "stdin-check", "file", "stdin"]);
                let mut c = match t.below(4) {
                    0 => crate::props::c12::C12.generate("lits", t)?,
                    1 => {
                        let (s, g) = common::gen_any_input(t, 40);
                        Case::text(g, s, cfg)
                    }
                    _ => crate::props::wf::wf_generate("prog", t, true)?,
                };
                // NUL cannot be in a file the binary decodes as text without being text; keep it
                c.gen = "cli".into();
                c.cursors = gen_token_cursors(t, &c.input);
                c.extra = serde_json::json!({"cli": via});
                return Some(c);
            }
            "boundary" => {
                let n = *t.pick(&[65534usize, 65535, 65536, 65537, 70000]);
                let body = "c".repeat(n);
                let s = match t.below(4) {
                    0 => format!("a;\n{{\n{body}\n}}\nb   :=   1;"),
                    1 => format!("x :=\n '''\n  {body}\n  ''';\nb   :=   1;"),
                    2 => format!("a;   {{ {body}\n tail }}   b;"),
                    _ => format!("a; (*\n{body} *) b;"),
                };
                (s, "boundary")
            }
            s => {
                let mut c = crate::props::wf::wf_generate(s, t, true)?;
                c.cursors = gen_token_cursors(t, &c.input);
                return Some(c);
            }
        };
        let mut c = Case::text(g, input, cfg);
        c.cursors = gen_token_cursors(t, &c.input);
        Some(c)
    }
    fn text_shrink(&self) -> bool {
        true
    }
    fn check(&self, case: &Case, ctx: &mut Ctx) -> Outcome {
        if case.cursors.is_empty() {
            return Outcome::Discard("no-cursor");
        }
        for c in &case.cursors {
            let c = *c as usize;
            if c <= case.input.len() && !case.input.is_char_boundary(c) {
                return Outcome::Discard("cursor-not-on-boundary");
            }
        }
        if let Some(via) = case.extra.get("cli").and_then(|v| v.as_str()) {
            return check_cli(case, via, ctx);
        }
        match check_cursors(&case.input, &case.cfg, &case.cursors) {
            Err(f) => Outcome::Fail(f),
            Ok(f) => {
                ctx.class_if(f.aligned, "token-lists-line-up");
                ctx.class_if(!f.aligned, "token-lists-differ(skipped clause 3)");
                ctx.class_if(f.inside_moved, "cursor-inside-token-moved");
                ctx.class_if(f.clause3 > 0, "asserted:same-offset-in-unchanged-token");
                ctx.class_if(f.clause4 > 0, "asserted:past-end-maps-to-end");
                Outcome::Pass { nontrivial: f.inside_moved }
            }
        }
    }
}

/// The binary: `--cursor a,b,c` prints one line `CURSOR=<list>` on stderr (stdin or one file);
/// the formatted text must be what it is without `--cursor`, and the reported list must satisfy
/// the same oracle as the library's. With two files the cursors cannot be tracked; the files
/// must still be formatted as without the option.
fn check_cli(case: &Case, via: &str, ctx: &mut Ctx) -> Outcome {
    use crate::engine::cli;
    cli::check_no_config_above();
    if case.input.starts_with('\u{feff}') {
        return Outcome::Discard("input-starts-with-bom");
    }
    let plain = format_with(&case.cfg, &case.input);
    let sc = cli::Scratch::new();
    let list = case.cursors.iter().map(|c| c.to_string()).collect::<Vec<_>>().join(",");
    let mut args = case.cfg.to_cli();
    args.push("-Cencoding=utf-8".into());
    args.push(format!("--cursor={list}"));
    let parse = |stderr: &str| -> Result<Option<Vec<u32>>, Failure> {
        let lines: Vec<&str> = stderr.lines().filter(|l| l.starts_with("CURSOR=")).collect();
        match lines.len() {
            0 => Ok(None),
            1 => {
                let mut v = vec![];
                for p in lines[0]["CURSOR=".len()..].split(',') {
                    match p.trim().parse::<u32>() {
                        Ok(n) => v.push(n),
                        Err(_) => {
                            return Err(Failure::new("cli-cursor-line", format!("unparsable {:?}", lines[0])).fact("via-cli"))
                        }
                    }
                }
                Ok(Some(v))
            }
            n => Err(Failure::new("cli-cursor-line", format!("{n} CURSOR= lines on stderr")).fact("via-cli")),
        }
    };
    ctx.class(&format!("cli:{via}"));
    let (out, res): (String, Option<Vec<u32>>) = match via {
        "stdin" | "stdin-check" => {
            if via == "stdin-check" {
                args.push("--mode=check".into());
            }
            let r = cli::run_pasfmt(&args, &sc.dir, Some(case.input.as_bytes()), &[]);
            if via == "stdin-check" {
                // check mode prints no text; exit status must not depend on the cursors
                let want_ok = plain == case.input;
                if r.code.is_none() || (r.code == Some(0)) != want_ok {
                    return Outcome::Fail(
                        Failure::new(
                            "cli-check-mode",
                            format!("--mode=check with --cursor exits {:?}; the input is {}formatted", r.code, if want_ok { "" } else { "not " }),
                        )
                        .fact("via-cli"),
                    );
                }
                return Outcome::Pass { nontrivial: false };
            }
            if !r.ok() {
                return Outcome::Fail(Failure::new("cli-exit", format!("exit {:?}: {}", r.code, short(&r.stderr_text(), 200))).fact("via-cli"));
            }
            let Ok(out) = String::from_utf8(r.stdout.clone()) else {
                return Outcome::Fail(Failure::new("text-changed", "stdout is not UTF-8".into()).fact("via-cli"));
            };
            match parse(&r.stderr_text()) {
                Ok(v) => (out, v),
                Err(f) => return Outcome::Fail(f),
            }
        }
        "file" => {
            let p = sc.write("u.pas", case.input.as_bytes());
            let mut a = args.clone();
            a.push("u.pas".into());
            let r = cli::run_pasfmt(&a, &sc.dir, None, &[]);
            if !r.ok() {
                return Outcome::Fail(Failure::new("cli-exit", format!("exit {:?}: {}", r.code, short(&r.stderr_text(), 200))).fact("via-cli"));
            }
            let Ok(out) = String::from_utf8(std::fs::read(&p).unwrap_or_default()) else {
                return Outcome::Fail(Failure::new("text-changed", "file is not UTF-8 afterwards".into()).fact("via-cli"));
            };
            match parse(&r.stderr_text()) {
                Ok(v) => (out, v),
                Err(f) => return Outcome::Fail(f),
            }
        }
        _ => {
            let p1 = sc.write("u.pas", case.input.as_bytes());
            let p2 = sc.write("v.pas", b"a  :=  1 ;\n");
            let mut a = args.clone();
            a.push("u.pas".into());
            a.push("v.pas".into());
            let r = cli::run_pasfmt(&a, &sc.dir, None, &[]);
            if !r.ok() {
                return Outcome::Fail(Failure::new("cli-exit", format!("exit {:?}: {}", r.code, short(&r.stderr_text(), 200))).fact("via-cli"));
            }
            let o1 = std::fs::read(&p1).unwrap_or_default();
            let o2 = std::fs::read(&p2).unwrap_or_default();
            let plain2 = format_with(&case.cfg, "a  :=  1 ;\n");
            if o1 != plain.as_bytes() || o2 != plain2.as_bytes() {
                return Outcome::Fail(
                    Failure::new("text-changed", "two files formatted with --cursor differ from the formatting without".into()).fact("via-cli"),
                );
            }
            return Outcome::Pass { nontrivial: false };
        }
    };
    let Some(res) = res else {
        return Outcome::Fail(Failure::new("cli-cursor-line", "no CURSOR= line on stderr".into()).fact("via-cli"));
    };
    match check_cursor_results(&case.input, &case.cfg, &case.cursors, &plain, out, res) {
        Err(f) => Outcome::Fail(f.fact("via-cli")),
        Ok(f) => {
            ctx.class_if(f.inside_moved, "cli:cursor-inside-token-moved");
            Outcome::Pass { nontrivial: f.inside_moved }
        }
    }
}

/// 1-8 cursors with emphasis on token starts, interiors and ends.
pub fn gen_token_cursors(t: &mut Tape, s: &str) -> Vec<u32> {
    let toks = refscan::scan(s);
    let many = t.chance(1, 3);
    let n = 1 + t.below(if many { 8 } else { 3 });
    let mut v = common::gen_cursors(t, s);
    v.truncate(2);
    while v.len() < n as usize {
        let tok = &toks[t.below(toks.len() as u32) as usize];
        let mut p = match t.below(5) {
            0 => tok.start,
            1 => tok.end,
            2 => tok.ws_start + t.below((tok.start - tok.ws_start) as u32 + 1) as usize,
            _ => tok.start + t.below((tok.end - tok.start) as u32 + 1) as usize,
        };
        while !s.is_char_boundary(p) {
            p -= 1;
        }
        v.push(p as u32);
    }
    v
}
