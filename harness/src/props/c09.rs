//! C09 — the configured line ending is used everywhere and input endings do not matter (DESIGN §5 C09).

use crate::engine::*;
use crate::gen::common;
use crate::model::refscan::{self, Kind};
use crate::model::toggle;
use crate::props::{c02, c08, wf};

pub struct C09Prop;
pub static C09: C09Prop = C09Prop;

/// Clause (a): every line break in the gaps between tokens (outside verbatim ranges) and inside
/// re-indented multi-line strings is the configured terminator.
pub fn check_uniform(out: &str, cfg: &Cfg) -> Result<(), Failure> {
    check_uniform_counting(out, cfg).map(|_| ())
}

/// As `check_uniform`; returns how many valid multi-line strings had their interior line
/// breaks asserted (vacuity audit: this clause was once dead code).
pub fn check_uniform_counting(out: &str, cfg: &Cfg) -> Result<u32, Failure> {
    let mut literals_checked = 0u32;
    let toks = refscan::scan(out);
    let ex = c08::exempt_ranges(out, &toks);
    let inside = |pos: usize| ex.iter().any(|(a, b)| pos >= *a && pos < *b);
    let bad_break = |s: &str| -> Option<usize> {
        let b = s.as_bytes();
        for i in 0..b.len() {
            if cfg.crlf {
                if b[i] == b'\n' && (i == 0 || b[i - 1] != b'\r') {
                    return Some(i);
                }
                if b[i] == b'\r' && b.get(i + 1) != Some(&b'\n') {
                    return Some(i);
                }
            } else if b[i] == b'\r' {
                return Some(i);
            }
        }
        None
    };
    for t in &toks {
        let gap = &out[t.ws_start..t.start];
        if !gap.is_empty() && !(inside(t.ws_start) && t.start > 0 && inside(t.start - 1)) {
            if let Some(i) = bad_break(gap) {
                return Err(Failure::new(
                    "terminator",
                    format!(
                        "line break in the gap before {:?} (offset {}) is not the configured {}: gap {:?}",
                        short(t.text(out), 30),
                        t.ws_start + i,
                        if cfg.crlf { "CRLF" } else { "LF" },
                        short(gap, 40)
                    ),
                )
                .fact("in-gap"));
            }
        }
        // (the exempt ranges include every multi-line token itself: only ranges other than the
        // literal's own count here, i.e. verbatim regions and asm bodies around it)
        let in_region = ex.iter().any(|(a, b)| t.start >= *a && t.start < *b && !(*a == t.start && *b == t.end));
        if t.kind == Kind::TextMulti && cfg.format_multiline_strings && !in_region {
            let lit = t.text(out);
            // only literals the formatter owns: valid ones (indentation rule holds)
            if c02::mlstr_value(lit).is_some() {
                literals_checked += 1;
                if let Some(i) = bad_break(lit) {
                    return Err(Failure::new(
                        "terminator",
                        format!(
                            "line break inside a valid multi-line string (offset {}) is not the configured {}",
                            t.start + i,
                            if cfg.crlf { "CRLF" } else { "LF" }
                        ),
                    )
                    .fact("in-mlstr"));
                }
            }
        }
    }
    Ok(literals_checked)
}

fn has_line_spanning_verbatim(input: &str, cfg: &Cfg) -> bool {
    let toks = refscan::scan(input);
    toks.iter().any(|t| {
        let txt = t.text(input);
        (t.kind == Kind::CommentBlock && txt.contains(['\n', '\r']))
            || (t.kind.is_comment() && toggle::parse_toggle(txt).is_some())
            || t.asm
            || (t.kind == Kind::TextMulti && (!cfg.format_multiline_strings || c02::mlstr_value(txt).is_none()))
            || (t.kind == Kind::TextUnterminated && txt.contains(['\n', '\r']))
            || (t.kind.is_directive() && txt.contains(['\n', '\r']))
    })
}

fn to_crlf(s: &str) -> String {
    s.replace('\n', "\r\n")
}

fn to_mixed(s: &str) -> String {
    let mut out = String::with_capacity(s.len() + 16);
    let mut n = 0;
    for c in s.chars() {
        if c == '\n' {
            n += 1;
            if n % 3 != 0 {
                out.push('\r');
            }
        }
        out.push(c);
    }
    out
}

impl Prop for C09Prop {
    fn id(&self) -> &'static str {
        "C09"
    }
    fn rule(&self) -> String {
        "Streams (proptest tapes): prog / progbig / mlprog = grammar-derived programs (LF source; multi-line strings included in mlprog) x generated configuration, each formatted with line_ending=lf and =crlf and from its LF, CRLF and mixed renderings; any = arbitrary inputs (uniformity clause only). Oracles: (a) in the output every line break in a gap between tokens (outside verbatim regions / asm / multi-line comments) and inside a valid multi-line string (when format_multiline_strings) is the configured terminator; (b) for CR-free input, format_crlf(x) with CRLF->LF equals format_lf(x); (c) when the input has no line-spanning verbatim token, format(x_CRLF) == format(x_mixed) == format(x_LF). Non-trivial = >= 5 output lines and a line comment or multi-line string in the input; distinct by hash of (input, configuration)."
            .into()
    }
    fn assumptions(&self) -> Vec<String> {
        vec![
            "x_CRLF / x_mixed are obtained from the LF rendering by substituting every line break (also inside comments and strings)".into(),
            "for arbitrary text the uniformity clause is checked only when the output scans to the same token kinds as the input and has no toggle comment (as C08)".into(),
        ]
    }
    fn streams(&self, tier: Tier) -> Vec<Stream> {
        let q = tier == Tier::Quick;
        let mut v = wf::wf_streams(tier, 1);
        v.push(Stream::random("mlprog", if q { 500 } else { 8000 }, 700));
        // C12's literal shapes (positions, quote counts, interior endings), narrow widths
        v.push(Stream::random("lits", if q { 1500 } else { 20000 }, 300));
        v.push(Stream::random("any", if q { 3000 } else { 40000 }, 400));
        // through the real binary: files whose only difference from their result is the terminator
        v.push(Stream::random("cli", if q { 8 } else { 80 }, 700));
        v
    }
    fn generate(&self, stream: &str, t: &mut Tape) -> Option<Case> {
        match stream {
            "cli" => {
                let cfg = Cfg::gen_unsaturated(t);
                let w = wf::build(t, 60, Default::default(), None, None)?;
                let mut c = wf::case_of(&w, cfg, "cli");
                c.extra = serde_json::json!({"cli": true, "pre_formatted": t.chance(2, 3)});
                Some(c)
            }
            "any" => {
                let cfg = Cfg::gen_unsaturated(t);
                let (input, g) = common::gen_any_input(t, 80);
                Some(Case::text(g, input, cfg))
            }
            "lits" => {
                let mut c = crate::props::c12::C12.generate("lits", t)?;
                if c.cfg.saturates() {
                    return None;
                }
                // the literal generator emits CR / CRLF interior endings too; C09 starts from an
                // LF source and derives the other renderings itself
                if c.input.contains('\r') {
                    c.input = c.input.replace("\r\n", "\n").replace('\r', "\n");
                    if let Some(a) = c.ann.as_mut() {
                        for l in a.lexemes.iter_mut() {
                            *l = l.replace("\r\n", "\n").replace('\r', "\n");
                        }
                    }
                }
                if t.chance(1, 2) {
                    c.cfg.wrap_column = *t.pick(&[30, 20, 40, 25, 35, 50, 15, 60]);
                }
                Some(c)
            }
            "mlprog" => {
                let cfg = Cfg::gen_unsaturated(t);
                let opts = crate::gen::prog::Opts { mlstr: true, ..Default::default() };
                let w = wf::build(t, 60, opts, None, None)?;
                Some(wf::case_of(&w, cfg, "mlprog"))
            }
            s => wf::wf_generate(s, t, true),
        }
    }
    fn hang_limit(&self, case: &Case) -> Option<u64> {
        if case.extra.get("cli").is_some() || case.input.len() > 256 {
            None
        } else {
            Some(10)
        }
    }
    fn check(&self, case: &Case, ctx: &mut Ctx) -> Outcome {
        if case.cfg.saturates() {
            return Outcome::Discard("saturating-config");
        }
        if case.extra.get("cli").is_some() {
            // a file with the *other* line ending (optionally otherwise already formatted) must be
            // rewritten to the configured one by files mode, and check mode must reject it
            use crate::engine::cli;
            cli::check_no_config_above();
            if has_line_spanning_verbatim(&case.input, &case.cfg) {
                return Outcome::Discard("line-spanning-verbatim");
            }
            let want = format_with(&case.cfg, &case.input);
            let pre = case.extra.get("pre_formatted").and_then(|v| v.as_bool()).unwrap_or(false);
            let base = if pre { want.clone() } else { case.input.clone() };
            let other = if case.cfg.crlf { base.replace("\r\n", "\n") } else { to_crlf(&base.replace("\r\n", "\n")) };
            if other == want {
                return Outcome::Discard("no-line-break");
            }
            let sc = cli::Scratch::new();
            let p = sc.write("f.pas", other.as_bytes());
            let mut a = case.cfg.to_cli();
            a.push("--mode=check".into());
            a.push("f.pas".into());
            let r = cli::run_pasfmt(&a, &sc.dir, None, &[]);
            if r.ok() {
                return Outcome::Fail(Failure::new("cli-check", "check mode accepts a file whose line endings are not the configured ones".into()).fact("via-cli"));
            }
            let mut a = case.cfg.to_cli();
            a.push("f.pas".into());
            let r = cli::run_pasfmt(&a, &sc.dir, None, &[]);
            let now = std::fs::read(&p).unwrap_or_default();
            if !r.ok() || now != want.as_bytes() {
                return Outcome::Fail(
                    Failure::new(
                        "cli-files",
                        format!(
                            "files mode left a file with {} line endings as it was / wrote something else (exit {:?}, {} bytes on disk, {} expected)",
                            if case.cfg.crlf { "LF" } else { "CRLF" },
                            r.code,
                            now.len(),
                            want.len()
                        ),
                    )
                    .fact("via-cli"),
                );
            }
            ctx.class("via-cli");
            return Outcome::Pass { nontrivial: want.lines().count() >= 5 };
        }
        let x = &case.input;
        if case.ann.is_none() {
            // arbitrary text: uniformity only, with C08's soundness guards
            let out = format_with(&case.cfg, x);
            let ti = refscan::scan(x);
            let to = refscan::scan(&out);
            if ti.len() != to.len() || ti.iter().zip(&to).any(|(a, b)| a.kind != b.kind) {
                return Outcome::Discard("output-scans-to-different-tokens");
            }
            if ti.iter().any(|t| t.kind.is_comment() && toggle::parse_toggle(t.text(x)).is_some()) {
                return Outcome::Discard("arbitrary-text-with-toggle");
            }
            let logf = logcap::facts();
            return match check_uniform(&out, &case.cfg) {
                Err(f) => Outcome::Fail(f.facts(&logf)),
                Ok(()) => Outcome::Pass { nontrivial: out.lines().count() >= 5 && x.contains("//") },
            };
        }
        if x.contains('\r') {
            return Outcome::Discard("generated-source-has-cr");
        }
        let lf = Cfg { crlf: false, ..case.cfg.clone() };
        let cr = Cfg { crlf: true, ..case.cfg.clone() };
        let o_lf = format_with(&lf, x);
        let mut logf = logcap::facts();
        let o_cr = format_with(&cr, x);
        logf.extend(logcap::facts());
        if let Err(f) = check_uniform(&o_lf, &lf) {
            return Outcome::Fail(f.fact("cfg:lf").facts(&logf));
        }
        match check_uniform_counting(&o_cr, &cr) {
            Err(f) => return Outcome::Fail(f.fact("cfg:crlf").facts(&logf)),
            Ok(n) => ctx.class_if(n > 0, "asserted:terminators-inside-valid-mlstr"),
        }
        // (b)
        if o_cr.replace("\r\n", "\n") != o_lf {
            return Outcome::Fail(
                Failure::new(
                    "substitution",
                    format!(
                        "format_crlf(x) with CRLF->LF differs from format_lf(x) ({} vs {} bytes)",
                        o_cr.len(),
                        o_lf.len()
                    ),
                )
                .facts(&logf),
            );
        }
        // (c)
        let spanning = has_line_spanning_verbatim(x, &case.cfg);
        if !spanning {
            for (name, variant) in [("CRLF", to_crlf(x)), ("mixed", to_mixed(x))] {
                let o = format_with(&case.cfg, &variant);
                let want = if case.cfg.crlf { &o_cr } else { &o_lf };
                if &o != want {
                    return Outcome::Fail(
                        Failure::new(
                            "input-endings",
                            format!("format(x_{name}) != format(x_LF) ({} vs {} bytes)", o.len(), want.len()),
                        )
                        .fact(format!("variant:{name}"))
                        .facts(&logf),
                    );
                }
            }
        }
        wf::classes(case, ctx);
        ctx.class_if(spanning, "has-line-spanning-verbatim(clause c skipped)");
        let has_ml = x.contains("'''");
        Outcome::Pass {
            nontrivial: o_lf.lines().count() >= 5 && (x.contains("//") || has_ml),
        }
    }
}
