use crate::engine::Prop;

pub mod c01;
pub mod c04;

pub fn all() -> Vec<&'static dyn Prop> {
    vec![&c01::C01, &c04::C04]
}

pub fn by_id(id: &str) -> Option<&'static dyn Prop> {
    all().into_iter().find(|p| p.id().eq_ignore_ascii_case(id))
}
