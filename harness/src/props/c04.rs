//! C04 — formatting always terminates without aborting, on any input (DESIGN §5 C04).

use pasfmt_core::prelude::*;

use crate::engine::*;
use crate::gen::{adversarial, common, seeds, soup, text};

pub struct C04Prop;
pub static C04: C04Prop = C04Prop;

/// nesting depths of the work-scaling families
const SCALE_DEPTHS: [usize; 3] = [5, 10, 20];

const CFG_GRID: &[(u32, bool, bool)] = &[
    (120, false, false),
    (0, false, false),
    (1, true, false),
    (10, false, true),
    (30, true, false),
    (u32::MAX, false, false),
    (20, false, false),
    (40, true, true),
];

/// Heuristic "not cleanly accepted by the grammar": unknown or unterminated token, unbalanced
/// brackets or begin/end, or a lexer/formatter warning.
pub fn looks_invalid(input: &str) -> (usize, bool) {
    let toks = DelphiLexer {}.lex(input);
    let mut paren = 0i64;
    let mut brack = 0i64;
    let mut blocks = 0i64;
    let mut bad = false;
    for t in &toks {
        match t.get_token_type() {
            RawTokenType::Unknown => bad = true,
            RawTokenType::TextLiteral(TextLiteralKind::Unterminated) => bad = true,
            RawTokenType::Op(OperatorKind::LParen) => paren += 1,
            RawTokenType::Op(OperatorKind::RParen) => {
                paren -= 1;
                if paren < 0 {
                    bad = true
                }
            }
            RawTokenType::Op(OperatorKind::LBrack) => brack += 1,
            RawTokenType::Op(OperatorKind::RBrack) => {
                brack -= 1;
                if brack < 0 {
                    bad = true
                }
            }
            RawTokenType::Keyword(
                KeywordKind::Begin | KeywordKind::Case | KeywordKind::Try | KeywordKind::Record | KeywordKind::Asm,
            ) => blocks += 1,
            RawTokenType::Keyword(KeywordKind::End) => {
                blocks -= 1;
                if blocks < 0 {
                    bad = true
                }
            }
            _ => {}
        }
    }
    if paren != 0 || brack != 0 || blocks != 0 {
        bad = true;
    }
    (toks.len().saturating_sub(1), bad)
}

fn count_conditionals(input: &str) -> (usize, usize) {
    let toks = DelphiLexer {}.lex(input);
    let n = toks
        .iter()
        .filter(|t| matches!(t.get_token_type(), RawTokenType::ConditionalDirective(_)))
        .count();
    let passes = pasfmt_core::defaults::parser::verif_pass_count(&toks);
    (n, passes)
}

/// Maximum run of nested openers: a crude depth measure used only to recognise the known
/// stack-overflow finding (deep nesting >= 1000).
pub fn nesting_depth(input: &str) -> usize {
    let toks = DelphiLexer {}.lex(input);
    let mut depth = 0i64;
    let mut max = 0i64;
    let mut chain = 0i64; // if/while/for/with/procedure chains recurse without closers
    let mut maxchain = 0i64;
    for t in &toks {
        match t.get_token_type() {
            RawTokenType::Op(OperatorKind::LParen | OperatorKind::LBrack | OperatorKind::LessThan(_))
            | RawTokenType::Keyword(
                KeywordKind::Begin
                | KeywordKind::Case
                | KeywordKind::Try
                | KeywordKind::Record
                | KeywordKind::Class
                | KeywordKind::Repeat
                | KeywordKind::Interface,
            ) => {
                depth += 1;
                max = max.max(depth);
            }
            RawTokenType::ConditionalDirective(k)
                if matches!(
                    k,
                    ConditionalDirectiveKind::If
                        | ConditionalDirectiveKind::Ifdef
                        | ConditionalDirectiveKind::Ifndef
                        | ConditionalDirectiveKind::Ifopt
                ) =>
            {
                depth += 1;
                max = max.max(depth);
            }
            RawTokenType::Op(OperatorKind::RParen | OperatorKind::RBrack | OperatorKind::GreaterThan(_))
            | RawTokenType::Keyword(KeywordKind::End | KeywordKind::Until) => {
                depth = (depth - 1).max(0);
            }
            RawTokenType::ConditionalDirective(
                ConditionalDirectiveKind::Endif | ConditionalDirectiveKind::Ifend,
            ) => {
                depth = (depth - 1).max(0);
            }
            RawTokenType::Keyword(
                KeywordKind::If
                | KeywordKind::While
                | KeywordKind::For
                | KeywordKind::With
                | KeywordKind::Procedure
                | KeywordKind::Function
                | KeywordKind::Else
                | KeywordKind::Then
                | KeywordKind::Do,
            ) => {
                chain += 1;
                maxchain = maxchain.max(chain);
            }
            _ => {}
        }
    }
    // directive expressions nest inside a single token: count "{$" occurrences as depth too
    let dir = input.matches("{$").count().max(input.matches("(*$").count());
    (max.max(maxchain) as usize).max(if dir >= 1000 { dir } else { 0 })
}

impl Prop for C04Prop {
    fn id(&self) -> &'static str {
        "C04"
    }
    fn rule(&self) -> String {
        "Streams: sigma3 = every sequence of 3 lexemes over the 109-lexeme alphabet (space-joined), default configuration; sigma2cfg = every pair x 8 configurations x 3 separators, in the build with debug assertions; random streams (proptest-generated choice tapes decoded into token soup, arbitrary UTF-8, mutated/spliced/truncated repository seeds, conditional-directive-heavy inputs with up to 64 sequential/nested blocks, nesting up to depth 60 (capped, see finding F-C04-stack), long tokens/gaps at u8/u16 boundaries) x generated configuration x 0-8 cursors on char boundaries or past the end; '_chk' streams run in the build with debug assertions and overflow checks. Oracle: format() returns (no panic; no abort or hang of the worker process, confirmed in a fresh process with a 60 s limit; hang oracle only for inputs <= 256 bytes); conditional passes <= 1 + number of conditional-directive tokens (hook H3); scaling = 34 nesting families (incl. directives nested inside the expression of a conditional directive) x 4 configurations: the number of search iterations of the line wrapper (hook H4) at nesting depths 5 / 10 / 20 may grow by at most a factor 12 per doubling (about cubic), decided without a clock; families whose depth-40 nest has at most 1600 bytes are also formatted at depth 40 under a hang limit of 30 s (work outside the search, e.g. in the lexer). Non-trivial = at least 2 tokens and not cleanly accepted by the grammar (unknown/unterminated token, unbalanced brackets or begin/end, or a warning logged by the formatter); distinct by hash of (input, configuration, cursors)."
            .into()
    }
    fn assumptions(&self) -> Vec<String> {
        vec![
            "cursor offsets lie on character boundaries or beyond the end (the API contract in the statement)".into(),
            "nesting deeper than 500 is not generated by the random streams (open finding F-C04-stack covers stack exhaustion)".into(),
            "a hang is reported only for inputs <= 256 bytes (measured quadratic worst case 0.3 s against a 10 s / 60 s limit); slower large inputs are counted as slow_inconclusive".into(),
        ]
    }
    fn streams(&self, tier: Tier) -> Vec<Stream> {
        let q = tier == Tier::Quick;
        let mut v = vec![
            Stream::exhaustive("sigma3", soup::space_size(3)),
            Stream::exhaustive("sigma2cfg", soup::space_size(2) * 24).chk(),
            Stream::random("soup", if q { 4000 } else { 40000 }, 300),
            Stream::random("soup_chk", if q { 2000 } else { 20000 }, 300).chk(),
            Stream::random("text", if q { 3000 } else { 30000 }, 400),
            Stream::random("text_chk", if q { 1500 } else { 15000 }, 400).chk(),
            Stream::random("seedmut", if q { 1500 } else { 20000 }, 64),
            Stream::random("seedmut_chk", if q { 700 } else { 8000 }, 64).chk(),
            Stream::random("directives", if q { 600 } else { 8000 }, 400),
            Stream::random("deep", if q { 60 } else { 3000 }, 64),
            Stream::random("long", if q { 8 } else { 40 }, 16).shards(4),
            Stream::exhaustive("scaling", adversarial::OPENERS.len() as u64 * 4).shards(8),
        ];
        if !q {
            v.push(Stream::exhaustive("sigma4", soup::space_size(4)));
        }
        v
    }
    fn generate(&self, stream: &str, t: &mut Tape) -> Option<Case> {
        let stream = stream.trim_end_matches("_chk");
        let cfg = Cfg::gen(t);
        let input = match stream {
            "soup" => soup::gen_soup(t, 64),
            "text" => {
                if t.chance(1, 5) {
                    text::gen_lossy(t, 300)
                } else {
                    text::gen_text(t, 150)
                }
            }
            "seedmut" => seeds::gen_mutated(t),
            "directives" => adversarial::gen_directive_heavy(t),
            "deep" => adversarial::gen_deep(t, 500),
            "long" => adversarial::gen_long(t),
            _ => return None,
        };
        let cursors = common::gen_cursors(t, &input);
        let mut c = Case::text(stream, input, cfg);
        c.cursors = cursors;
        Some(c)
    }
    fn enumerate(&self, stream: &str, index: u64) -> Option<Case> {
        match stream {
            "sigma3" => Some(Case::text(
                "sigma3",
                soup::render_indices(&soup::decode(index, 3), " "),
                Cfg::default(),
            )),
            "sigma4" => Some(Case::text(
                "sigma4",
                soup::render_indices(&soup::decode(index, 4), " "),
                Cfg::default(),
            )),
            "scaling" => {
                let kind = (index / 4) as usize;
                let variant = index % 4;
                let cfg = Cfg {
                    begin_always_wrap: variant & 1 == 1,
                    wrap_column: if variant & 2 == 2 { 40 } else { 120 },
                    ..Cfg::default()
                };
                let mut c = Case::text("scaling", adversarial::nest(kind, SCALE_DEPTHS[2], variant == 0), cfg);
                c.extra = serde_json::json!({"scaling_kind": kind, "close": variant == 0});
                Some(c)
            }
            "sigma2cfg" => {
                let pair = index / 24;
                let r = (index % 24) as usize;
                let (w, b, tabs) = CFG_GRID[r % 8];
                let sep = [" ", "\n", ""][r / 8];
                let cfg = Cfg {
                    wrap_column: w,
                    begin_always_wrap: b,
                    use_tabs: tabs,
                    ..Cfg::default()
                };
                let input = soup::render_indices(&soup::decode(pair, 2), sep);
                let mut c = Case::text("sigma2cfg", input, cfg);
                c.cursors = vec![1];
                // cursor 1 must be a char boundary
                if !c.input.is_char_boundary(1) {
                    c.cursors = vec![0];
                }
                Some(c)
            }
            _ => None,
        }
    }
    fn text_shrink(&self) -> bool {
        true
    }
    fn crash_facts(&self, case: &Case) -> Vec<String> {
        let d = nesting_depth(&case.input);
        if d >= 1000 {
            vec!["nesting>=1000".into()]
        } else {
            vec![format!("nesting:{d}")]
        }
    }
    fn hang_limit(&self, case: &Case) -> Option<u64> {
        if case.extra.get("scaling_kind").is_some() {
            // nests of one construct up to depth 40: polynomial work is far below a second
            return Some(30);
        }
        if case.input.len() <= 256 {
            Some(10)
        } else {
            None
        }
    }
    fn check(&self, case: &Case, ctx: &mut Ctx) -> Outcome {
        if let Some(kind) = case.extra.get("scaling_kind").and_then(|v| v.as_u64()) {
            // work-scaling oracle: search iterations (hook) at nesting depths d, 2d, 4d must
            // grow polynomially, without consulting a clock
            let close = case.extra.get("close").and_then(|v| v.as_bool()).unwrap_or(true);
            let mut w = [0u64; 3];
            for (i, d) in SCALE_DEPTHS.iter().enumerate() {
                let input = adversarial::nest(kind as usize, *d, close);
                let _ = pasfmt_core::rules::optimising_line_formatter::verif_work::take_iterations();
                let _ = format_with(&case.cfg, &input);
                w[i] = pasfmt_core::rules::optimising_line_formatter::verif_work::take_iterations();
                // checked after every depth, so that an exponential blow-up is reported at the
                // first doubling instead of being waited for at the next
                if i > 0 && w[i] > 12 * w[i - 1].max(64) {
                    return Outcome::Fail(
                        Failure::new(
                            "work-growth",
                            format!(
                                "search iterations grow faster than a cubic polynomial with nesting depth: {} -> {} iterations from depth {} to {} of {:?} (all: {:?})",
                                w[i - 1], w[i], SCALE_DEPTHS[i - 1], SCALE_DEPTHS[i],
                                adversarial::OPENERS[kind as usize % adversarial::OPENERS.len()].0,
                                &w[..=i]
                            ),
                        )
                        .fact("work-growth"),
                    );
                }
            }
            // work outside the wrapper's search (lexer, parser) is not counted by the hook: a
            // nest of depth 40 that still fits the size class with a hang limit is formatted as
            // well, so that exponential work there shows as a hang of this case
            let deep = adversarial::nest(kind as usize, 40, close);
            if deep.len() <= 1600 {
                let _ = format_with(&case.cfg, &deep);
                ctx.class("scaling-family-depth-40");
            }
            if std::env::var("VERIF_SHOW_WORK").is_ok() {
                eprintln!("scaling kind {kind} close {close} cfg wrap {} always {}: work {:?}", case.cfg.wrap_column, case.cfg.begin_always_wrap, w);
            }
            ctx.class("scaling-family");
            return Outcome::Pass { nontrivial: true };
        }
        for c in &case.cursors {
            let c = *c as usize;
            if c <= case.input.len() && !case.input.is_char_boundary(c) {
                return Outcome::Discard("cursor-not-on-boundary");
            }
        }
        let (_out, _cs) = format_with_cursors(&case.cfg, &case.input, &case.cursors);
        let warned = !logcap::take().is_empty();
        // work clause
        if case.input.contains('$') {
            let (n, passes) = count_conditionals(&case.input);
            if n > 0 {
                ctx.class("has-conditional");
                if n >= 16 {
                    ctx.class("conditionals>=16");
                }
            }
            if passes > n + 1 {
                return Outcome::Fail(
                    Failure::new(
                        "passes",
                        format!("{passes} conditional passes for {n} conditional-directive tokens (more than linear)"),
                    )
                    .fact("passes"),
                );
            }
        }
        let (ntok, bad) = looks_invalid(&case.input);
        ctx.class_if(!case.cursors.is_empty(), "with-cursors");
        ctx.class_if(warned, "formatter-warned");
        ctx.class_if(case.input.len() > 256, "input>256B");
        Outcome::Pass {
            nontrivial: ntok >= 2 && (bad || warned),
        }
    }
}
